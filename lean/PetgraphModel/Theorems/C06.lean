import PetgraphModel.Model.VisitTable
import PetgraphModel.Spec.VisitSpec
import PetgraphModel.Proofs.VisitTable
import PetgraphModel.Extracted.AdjWidth
import PetgraphModel.Proofs.C06ExtractedNorm
import PetgraphModel.Model.C06Views
import PetgraphModel.Proofs.C06W2GraphMap
import PetgraphModel.Proofs.C06W2Csr
import PetgraphModel.Proofs.C06W2List
import PetgraphModel.Proofs.C06W2Matrix
import PetgraphModel.Proofs.C06W2Graph
import PetgraphModel.Theorems.C04
import PetgraphModel.Theorems.C02
import PetgraphModel.Theorems.C03
import PetgraphModel.Proofs.C06W3Stable
import PetgraphModel.Proofs.C06W3Spec
import PetgraphModel.Proofs.C06W3AsIs
import PetgraphModel.Proofs.C06W3Abs
import PetgraphModel.Proofs.C06W5Replay
import PetgraphModel.Proofs.C06W5Abs
import PetgraphModel.Proofs.C06W6Law
/-
C06 — every graph type and adaptor shows one consistent graph through the `visit` traits.

Objects: `Table` (everything the visit traits answer for one view, Model/VisitTable.lean), the adaptors as
functions `Table → Table` (tied to /repo/src/visit/*.rs by the exact correspondence run of `./check C06`:
every adaptor table dumped from the real crate equals the model computed from the dumped base table),
`TableConsistent` = the clauses of the property statement, `abs` = the abstract graph a table denotes
(Spec/VisitSpec.lean).

What is proved here, for ALL tables (no bound on size, any stacking depth):
  * the run-time judge `checkTable` accepts exactly the consistent tables (verified checker);
  * each adaptor model presents exactly the reversed / symmetrised / node-induced / edge-restricted /
    identical abstract graph, and its table is again consistent over the traits it implements;
  * the code as it stands (`Cfg.asIs`) is refuted on witnesses for D23 and D24, and the recorded dumps of
    `MatrixGraph<Directed>` (D6) and `Csr<Undirected>` (D7) are refuted / repaired on witnesses.

Wave 2 (section "wave 2" below): `C06_consistent_<Type>` — `TableConsistent` of the table COMPUTED FROM THE STORAGE
MODEL (Model/C06Views.lean) in every state satisfying the type's invariant, hence after every history.  The dumped
tables of the real crate are in addition judged on every run by `checkTable` (soundness: `C06_checkTable_sound`).
Only property theorems live here; lemmas are in Proofs/VisitTable.lean.

Wave 5 (section "wave 5" at the end): the tie between the storage-model tables and the real dumps — the driver REPLAYS the
operation history of every base graph on the storage mirror of the owning vertical and compares the dumped table EXACTLY
with `<type>Table state`; `C06_replay_*` say that every replayed state is inside the scope of the `C06_consistent_<Type>`
theorems; the bounds "ids below 100" are gone (`C06_pcode_injective`), the unused `Fits` / `LFits` hypotheses are gone;
`C06_table_abs_MatrixGraph / _Csr / _List`; run-time checks of the hypotheses (`C06_*_check`).

Wave 3 (section "wave 3" at the end, after an independent audit): the strengthened predicate `TableConsistentS` and the
restatement of `C06_frozenOwned` against the inner table (the old one is vacuous); `C06_consistent_StableGraph` over the
C02 storage model; positive theorems about the adaptors AS THE CODE IS (`Cfg.asIs`) for every trait the findings
D23/D24 do not reach (the theorems `C06_reversed`, `C06_undirectedAdaptor`, `C06_stack` above are about `Cfg.ideal`, the
adaptors with the two findings repaired); `abs (<type>Table s)` tied to the storage specifications of C01/C02/C03.
-/
namespace PetgraphModel.C06T
open PetgraphModel.Visit

/-- the judge is sound: a table it accepts satisfies every clause of the property over the traits present. -/
theorem C06_checkTable_sound (qs : List Nat) (t : Table) (h : checkTable qs t = true) : TableConsistent qs t :=
  (checkTable_iff qs t).mp h

/-- … and complete: it rejects no consistent table (so a SPECFAIL is a real violation of a clause). -/
theorem C06_checkTable_complete (qs : List Nat) (t : Table) (h : TableConsistent qs t) : checkTable qs t = true :=
  (checkTable_iff qs t).mpr h

/-- `Reversed`: presents the reversed graph, consistently across all traits it implements
(neighbors, edges, both directed variants, the adjacency matrix, counts, indices). -/
theorem C06_reversed (qs : List Nat) (t : Table) (h : TableConsistent qs t) :
    TableConsistent qs (reversed Cfg.ideal t) ∧ abs (reversed Cfg.ideal t) = (abs t).reverse :=
  ⟨reversed_consistent h, abs_applyOp Cfg.ideal .rev t (by decide)⟩

/-- `UndirectedAdaptor`: presents the symmetrisation (over a directed or an undirected view). -/
theorem C06_undirectedAdaptor (qs : List Nat) (t : Table) (h : TableConsistent qs t) :
    TableConsistent qs (undirected Cfg.ideal t) ∧ abs (undirected Cfg.ideal t) = (abs t).symmetrise :=
  ⟨undirected_consistent h, abs_applyOp Cfg.ideal .und t (by decide)⟩

/-- `NodeFiltered`: presents the node-induced subgraph, for every node predicate (bit mask `m`);
a filtered-out query node has no neighbours and no edges. -/
theorem C06_nodeFiltered (qs : List Nat) (t : Table) (m : Nat) (h : TableConsistent qs t) :
    TableConsistent qs (nodeFiltered m t) ∧ abs (nodeFiltered m t) = (abs t).induce (inMask m) :=
  ⟨nodeFiltered_consistent m h, abs_applyOp Cfg.ideal (.nf m) t (by simp)⟩

/-- `EdgeFiltered`: presents the edge-restricted graph, for EVERY predicate `q` on edge references —
on an undirected view `q` must not depend on the orientation the edge is reported in. -/
theorem C06_edgeFiltered (qs : List Nat) (t : Table) (q : ERef → Bool)
    (hq : t.directed = false → ∀ e, q e.swap = q e) (h : TableConsistent qs t) :
    TableConsistent qs (edgeFiltered q t) ∧ abs (edgeFiltered q t) = (abs t).restrict q := by
  refine ⟨edgeFiltered_consistent q hq h, ?_⟩
  simp only [edgeFiltered, Visit.abs, AGraph.restrict]; cases t.erefs <;> simp

/-- `Frozen` and the `&G` delegation present the identical table. -/
theorem C06_identity (cfg : Cfg) (t : Table) : applyOp cfg .frozen t = t ∧ applyOp cfg .ref t = t := ⟨rfl, rfl⟩

/-- `Frozen<'_, G>` over the owned graph type: the `&self` traits only, still consistent.

SUPERSEDED (audit, wave 3): this statement is VACUOUS — the view has neither `node_identifiers` nor `edge_references`, and
every clause of `TableConsistent` is relative to those two fields, so the conclusion holds for any table whatsoever
(`C06_frozenOwned_old_is_vacuous`).  The statements that carry content are `C06_frozenOwned_inner`,
`C06_frozenOwned_explicit` (judged against the inner table) and `C06_frozenOwned_S` (strengthened predicate). -/
theorem C06_frozenOwned (qs : List Nat) (t : Table) (h : TableConsistent qs t) : TableConsistent qs (frozenOwned t) :=
  frozenOwned_consistent h

/-- the harness's orientation-independent predicates really are (all codes but 6 and 8). -/
theorem C06_predSymmetric (p : Nat) (hp : predSymmetric p = true) (e : ERef) : evalPred p e.swap = evalPred p e :=
  evalPred_symmetric p hp e

/-- ANY stacking depth: a stack of adaptors over a consistent table is consistent and presents the composition
of the abstract operations.  (`StackOk`: edge predicates are orientation independent wherever the view they are
applied to is undirected.) -/
theorem C06_stack (qs : List Nat) (ops : List Op) (t : Table) (hok : StackOk t.directed ops)
    (hfo : Op.frozenOwned ∉ ops) (h : TableConsistent qs t) :
    TableConsistent qs (applyStack Cfg.ideal ops t) ∧ abs (applyStack Cfg.ideal ops t) = specStack ops (abs t) :=
  ⟨applyStack_consistent ops t hok h, abs_applyStack Cfg.ideal ops t hfo⟩

/-- depth 2 is a corollary, not an enumeration. -/
theorem C06_depth2 (qs : List Nat) (o1 o2 : Op) (t : Table) (hok : StackOk t.directed [o1, o2])
    (hfo : Op.frozenOwned ∉ [o1, o2]) (h : TableConsistent qs t) :
    TableConsistent qs (applyOp Cfg.ideal o2 (applyOp Cfg.ideal o1 t)) ∧
      abs (applyOp Cfg.ideal o2 (applyOp Cfg.ideal o1 t)) = specOp o2 (specOp o1 (abs t)) :=
  C06_stack qs [o1, o2] t hok hfo h

/-- the abstraction law holds for the code as it stands too (D23/D24 do not touch identifiers, edge references
or the direction flag) — it is the per-node iterators and the adjacency matrix that disagree with it. -/
theorem C06_stack_abs_asIs (ops : List Op) (t : Table) (hfo : Op.frozenOwned ∉ ops) :
    abs (applyStack Cfg.asIs ops t) = specStack ops (abs t) :=
  abs_applyStack Cfg.asIs ops t hfo

/-- "the same abstract graph" is an equivalence relation (what the per-run judge compares with). -/
theorem C06_same_equivalence :
    (∀ g : AGraph, g.Same g) ∧ (∀ g h : AGraph, g.Same h → h.Same g) ∧
    (∀ g h k : AGraph, g.Same h → h.Same k → g.Same k) :=
  ⟨fun _ => ⟨rfl, List.Perm.refl _, List.Perm.refl _⟩,
   fun _ _ ⟨h1, h2, h3⟩ => ⟨h1.symm, h2.symm, h3.symm⟩,
   fun _ _ _ ⟨h1, h2, h3⟩ ⟨k1, k2, k3⟩ => ⟨h1.trans k1, h2.trans k2, h3.trans k3⟩⟩

/-! ### witnesses -/

/-- DESIGN §5 witness of D23/D24: digraph `1 → 0`, `1 → 2`, loop `0 → 0`, as `Graph` presents it. -/
def w1 : Table :=
  let e0 : ERef := ⟨0, 1, 0, 1⟩
  let e1 : ERef := ⟨1, 1, 2, 2⟩
  let e2 : ERef := ⟨2, 0, 0, 3⟩
  { directed := true, ids := some [0, 1, 2], refs := some [(0, 10), (1, 11), (2, 12)], nodeCount := some 3,
    nodeBound := 3, toIx := [(0, 0), (1, 1), (2, 2)], fromIx := [(0, 0), (1, 1), (2, 2)], compact := true,
    erefs := some [e0, e1, e2], edgeCount := some 3, edgeBound := some 3, eix := some [(0, 0, 0), (1, 1, 1), (2, 2, 2)],
    nbrs := some [(0, [0]), (1, [2, 0]), (2, [])], nbrsOut := some [(0, [0]), (1, [2, 0]), (2, [])],
    nbrsIn := some [(0, [0, 1]), (1, []), (2, [1])],
    edges := some [(0, [e2]), (1, [e1, e0]), (2, [])], edgesOut := some [(0, [e2]), (1, [e1, e0]), (2, [])],
    edgesIn := some [(0, [e2, e0]), (1, []), (2, [e1])],
    adj := some [(0, [0]), (1, [0, 2]), (2, [])] }

/-- an undirected graph with the single edge `0 – 1`, as `Graph` presents it -/
def w2 : Table :=
  let e : ERef := ⟨0, 0, 1, 5⟩
  { directed := false, ids := some [0, 1], refs := some [(0, 10), (1, 11)], nodeCount := some 2,
    nodeBound := 2, toIx := [(0, 0), (1, 1)], fromIx := [(0, 0), (1, 1)], compact := true,
    erefs := some [e], edgeCount := some 1, edgeBound := some 1, eix := some [(0, 0, 0)],
    nbrs := some [(0, [1]), (1, [0])], nbrsOut := some [(0, [1]), (1, [0])], nbrsIn := some [(0, [1]), (1, [0])],
    edges := some [(0, [e]), (1, [e.swap])], edgesOut := some [(0, [e]), (1, [e.swap])],
    edgesIn := some [(0, [e.swap]), (1, [e])],
    adj := some [(0, [1]), (1, [0])] }

/-- `MatrixGraph<Directed>` with the single edge `1 → 0` (weight 7), as dumped from the real crate (D6); the pair edge ids
are `pcode` codes: `pcode 1 0 = 2`, `pcode 0 1 = 1` -/
def w3 : Table :=
  { directed := true, ids := some [0, 1], refs := some [(0, 11), (1, 12)], nodeCount := some 2,
    nodeBound := 2, toIx := [(0, 0), (1, 1)], fromIx := [(0, 0), (1, 1)], compact := false,
    erefs := some [⟨2, 1, 0, 7⟩], edgeCount := some 1, edgeBound := none, eix := none,
    nbrs := some [(0, []), (1, [0])], nbrsOut := some [(0, []), (1, [0])], nbrsIn := some [(0, [1]), (1, [])],
    edges := some [(0, []), (1, [⟨2, 1, 0, 7⟩])], edgesOut := some [(0, []), (1, [⟨2, 1, 0, 7⟩])],
    edgesIn := some [(0, [⟨1, 0, 1, 7⟩]), (1, [])],
    adj := some [(0, []), (1, [0])] }

/-- `Csr<Undirected>` with the single edge `0 – 1` (weight 3), as dumped from the real crate (D7) -/
def w4 : Table :=
  { directed := false, ids := some [0, 1], refs := some [(0, 10), (1, 11)], nodeCount := some 2,
    nodeBound := 2, toIx := [(0, 0), (1, 1)], fromIx := [(0, 0), (1, 1)], compact := true,
    erefs := some [⟨0, 0, 1, 3⟩, ⟨1, 1, 0, 3⟩], edgeCount := some 1, edgeBound := none, eix := none,
    nbrs := some [(0, [1]), (1, [0])], nbrsOut := none, nbrsIn := none,
    edges := some [(0, [⟨0, 0, 1, 3⟩]), (1, [⟨1, 1, 0, 3⟩])], edgesOut := none, edgesIn := none,
    adj := some [(0, [1]), (1, [0])] }

/-- the hypotheses of the adaptor theorems are satisfiable by non-trivial states (self-loop, both directions). -/
example : TableConsistent [0, 1, 2] w1 := C06_checkTable_sound _ _ (by decide)
example : TableConsistent [0, 1] w2 := C06_checkTable_sound _ _ (by decide)
example : StackOk w1.directed [.nf 5, .rev, .ef 6] := by simp [StackOk, dirAfter, w1]
example : TableConsistent [0, 1, 2] (applyStack Cfg.ideal [.nf 5, .rev, .ef 6] w1) :=
  (C06_stack _ _ _ (by simp [StackOk, dirAfter, w1]) (by simp) (C06_checkTable_sound _ _ (by decide))).1

/-- D23 (open): the code as it stands — `UndirectedAdaptor` chaining `Incoming` then `Outgoing` unchanged —
violates the property on the DESIGN witness (`edges(0)` yields `1 → 0` with source 1 and the loop twice),
while the ideal adaptor is consistent there. -/
theorem C06_D23_counterexample :
    TableConsistent [0, 1, 2] w1 ∧ ¬ TableConsistent [0, 1, 2] (undirected Cfg.asIs w1) ∧
    TableConsistent [0, 1, 2] (undirected Cfg.ideal w1) := by
  refine ⟨C06_checkTable_sound _ _ (by decide), fun h => ?_, C06_checkTable_sound _ _ (by decide)⟩
  have := C06_checkTable_complete _ _ h
  revert this; decide

/-- D23 over an undirected view: the same chain lists every incident edge twice. -/
theorem C06_D23_undirected_base_counterexample :
    TableConsistent [0, 1] w2 ∧ ¬ TableConsistent [0, 1] (undirected Cfg.asIs w2) := by
  refine ⟨C06_checkTable_sound _ _ (by decide), fun h => ?_⟩
  have := C06_checkTable_complete _ _ h
  revert this; decide

/-- D24 (repaired in /repo; `Cfg.asIs` has the switch off now): `GetAdjacencyMatrix for Reversed`
delegated unchanged to the inner graph — the recorded behaviour `{ d24 := true }` — is not reversed with
the rest; looking the reversed edge up is. -/
theorem C06_D24_counterexample :
    ¬ TableConsistent [0, 1, 2] (reversed { d23 := true, d24 := true } w1) ∧
      TableConsistent [0, 1, 2] (reversed Cfg.ideal w1) ∧ TableConsistent [0, 1, 2] (reversed Cfg.asIs w1) := by
  refine ⟨?_, C06_checkTable_sound _ _ (by decide), C06_checkTable_sound _ _ (by decide)⟩
  intro h
  have := C06_checkTable_complete _ _ h
  revert this; decide

theorem C06_D24_counterexample_old_shape :
    ¬ TableConsistent [0, 1, 2] (reversed { d23 := true, d24 := true } w1) ∧ TableConsistent [0, 1, 2] (reversed Cfg.ideal w1) := by
  refine ⟨fun h => ?_, C06_checkTable_sound _ _ (by decide)⟩
  have := C06_checkTable_complete _ _ h
  revert this; decide

/-- D6 (open): the table `MatrixGraph<Directed>` presents violates the `edges_directed(Incoming)` clause;
with the endpoints of the incoming references put right (`repairD6`) it is consistent. -/
theorem C06_D6_counterexample :
    ¬ TableConsistent [0, 1] w3 ∧ ¬ edgesInOk [0, 1] w3 ∧ TableConsistent [0, 1] (repairD6 w3) := by
  refine ⟨fun h => ?_, by decide, C06_checkTable_sound _ _ (by decide)⟩
  have := C06_checkTable_complete _ _ h
  revert this; decide

/-- D7 (open): `Csr<Undirected>::edge_references` lists the edge twice for `edge_count() == 1`;
with one reference per edge (`repairD7`) the table is consistent. -/
theorem C06_D7_counterexample :
    ¬ TableConsistent [0, 1] w4 ∧ ¬ erefsOk w4 ∧ TableConsistent [0, 1] (repairD7 w4) := by
  refine ⟨fun h => ?_, by decide, C06_checkTable_sound _ _ (by decide)⟩
  have := C06_checkTable_complete _ _ h
  revert this; decide

/-! ### wave 2: `C06_consistent_<Type>` — the table COMPUTED FROM THE STORAGE MODEL is consistent in every
reachable state

`<type>Table` (Model/C06Views.lean) fills every field of the table from the storage model's own query functions the
way the Rust trait impls do (and the way `harness/src/c06.rs` dumps them); the theorems below say that this table
satisfies every clause of the property in every state that satisfies the type's representation invariant, hence
after every history. -/

/-- `GraphMap` (directed and undirected): in every state satisfying the C03 invariant — ANY node values (wave 5: the
pair edge-id code `pcode a b` of the tables is injective on all pairs, `C06_pcode_injective`; the bound "node values
below 100" of wave 2 is gone) — all thirteen clauses hold for the table computed from the two `IndexMap`s:
identifiers/references/count, the compact `NodeIndexable` numbering, `edge_references`/`edge_count`, `EdgeIndexable`,
`neighbors`, `neighbors_directed`, `edges`, `edges_directed` (both directions) and `is_adjacent`. -/
theorem C06_consistent_GraphMap (s : GM.State) (h : GMProofs.Inv s) :
    TableConsistent (GM.nodesOf s) (graphMapTable s) :=
  graphMapTable_consistent s h

/-- … hence after EVERY history of public calls on a fresh map (any length, ANY arguments), and the run-time judge
accepts that table. -/
theorem C06_consistent_GraphMap_all_histories (directed : Bool) (ops : List GM.Op) :
    let s := (GM.run (GM.State.empty directed) ops).1
    TableConsistent (GM.nodesOf s) (graphMapTable s) ∧ checkTable (GM.nodesOf s) (graphMapTable s) = true := by
  intro s
  have hc := C06_consistent_GraphMap s (GMProofs.run_spec _ ops (GMProofs.inv_empty directed)).1
  exact ⟨hc, C06_checkTable_complete _ _ hc⟩

/-- … and so is every adaptor stack over a reachable `GraphMap` (composition with `C06_stack`). -/
theorem C06_GraphMap_stack (directed : Bool) (ops : List GM.Op)
    (stack : List Op) (hok : StackOk (graphMapTable (GM.run (GM.State.empty directed) ops).1).directed stack)
    (hfo : Op.frozenOwned ∉ stack) :
    let s := (GM.run (GM.State.empty directed) ops).1
    TableConsistent (GM.nodesOf s) (applyStack Cfg.ideal stack (graphMapTable s)) ∧
      abs (applyStack Cfg.ideal stack (graphMapTable s)) = specStack stack (abs (graphMapTable s)) :=
  C06_stack _ stack _ hok hfo (C06_consistent_GraphMap_all_histories directed ops).1

/-- the `0` default for a missing looked-up weight in `GMView.eref` is never used: the per-node edge iterators
find every weight (no `unreachable!()`), so `graphMapTable` is the table of a panic-free dump. -/
theorem C06_GraphMap_table_total (s : GM.State) (h : GMProofs.Inv s) (a : Nat) (d : GM.Dir) :
    (∀ e ∈ GM.edgesOf s a, e.2.2.isSome = true) ∧ (∀ e ∈ GM.edgesDirected s a d, e.2.2.isSome = true) :=
  graphMapTable_no_default s h a d

/-- non-vacuity: the table of a history with a self-loop, `swap_remove` in both maps and node values far beyond the old
bound is the non-trivial one (edge ids are `pcode` codes of the canonical pairs `(1, 2)`, `(1, 1)`, `(1, 1000)`). -/
example :
    (graphMapTable (GM.run (GM.State.empty false) [.addEdge 2 1 7, .addEdge 1 1 9, .addEdge 5 1 2, .removeNode 5, .addNode 0,
        .addEdge 1000 1 4]).1).erefs
      = some [⟨5, 1, 2, 7⟩, ⟨3, 1, 1, 9⟩, ⟨1000001, 1, 1000, 4⟩] := by decide

/-! #### `Csr` -/

/-- the node count fits the index type (`Ix::new` does not wrap); kept by EVERY history (`add_node` panics at capacity) -/
abbrev CsrIxFits := CsrW2.IxFits
/-- `edge_count()` of an undirected `Csr` counts every edge once (follows from the C05 refinement, `csr_edgeCountOk`) -/
abbrev CsrEdgeCountOk := CsrW2.EdgeCountOk

/-- `Csr<_, _, Directed, _>`: in every state satisfying the C05 invariant whose node count fits the index type,
the table computed from `row`/`column`/`edges` as it stands is consistent (all clauses; the directed-only traits,
`EdgeIndexable` are not implemented, their clauses are vacuous). -/
theorem C06_consistent_Csr (s : CsrM.State) (h : C05T.Inv s) (hf : CsrIxFits s) (hd : s.directed = true) :
    TableConsistent (CsrM.nodeIdentifiers s) (csrTable s) :=
  csrTable_consistent s h hf hd

/-- `Csr<_, _, Undirected, _>` behind the repair of the open finding D7 (`edge_references` lists each non-loop edge
in both rows): with one reference per edge under its endpoint-pair id (`repairD7`), the table is consistent — any number
of nodes (wave 5: the pair code is `pcode`). The unrepaired table violates the property (`C06_D7_counterexample`). -/
theorem C06_consistent_Csr_undirected_repairD7 (s : CsrM.State) (h : C05T.Inv s) (hf : CsrIxFits s)
    (hd : s.directed = false) (hcount : CsrEdgeCountOk s) :
    TableConsistent (CsrM.nodeIdentifiers s) (repairD7 (csrTable s)) :=
  csrTable_consistent_undirected s h hf hd hcount

/-- all histories, directed `Csr`, from `with_nodes(n)` (`new` = `with_nodes(0)`; `h0`: the `n` initial nodes fit the
index type): consistent, and no trait call made for the table panics.  Wave 5: NO hypothesis on the history (the
`C05T.Fits` of wave 2 was unused: at the capacity of the index type `add_node` panics and leaves the graph as it was). -/
theorem C06_consistent_Csr_all_histories (m c : Nat) (dbg : Bool) (n : Nat) (ops : List CsrM.Op)
    (h0 : m = 0 ∨ n ≤ m) :
    let s := (CsrM.run (CsrM.withNodes true m c dbg n) ops).1
    TableConsistent (CsrM.nodeIdentifiers s) (csrTable s) ∧ CsrView.callsOk s :=
  csrTable_consistent_all_histories m c dbg n ops h0

/-- … and from `from_sorted_edges`. -/
theorem C06_consistent_Csr_from_sorted (m c : Nat) (dbg : Bool) (es : List CsrM.Edge) (s0 : CsrM.State)
    (ops : List CsrM.Op) (h : CsrM.fromSortedEdges m c dbg es = .ok s0) (h0 : CsrIxFits s0) :
    let s := (CsrM.run s0 ops).1
    TableConsistent (CsrM.nodeIdentifiers s) (csrTable s) ∧ CsrView.callsOk s :=
  csrTable_consistent_from_sorted m c dbg es s0 ops h h0

/-- all histories, undirected `Csr`, behind `repairD7` (no hypothesis on the history, no bound on the node count). -/
theorem C06_consistent_Csr_undirected_all_histories (m c : Nat) (dbg : Bool) (n : Nat) (ops : List CsrM.Op)
    (h0 : m = 0 ∨ n ≤ m) :
    let s := (CsrM.run (CsrM.withNodes false m c dbg n) ops).1
    TableConsistent (CsrM.nodeIdentifiers s) (repairD7 (csrTable s)) ∧ CsrView.callsOk s :=
  csrTable_consistent_all_histories_undirected m c dbg n ops h0

/-- tie to the dumped witness: the table the MODEL computes for `Csr<Undirected>` with the single edge `0 – 1`
is, field for field, the table dumped from the real crate (`w4`, finding D7). -/
theorem C06_Csr_D7_model_is_dump :
    csrTable (CsrM.run (CsrM.new false 4294967296 32 true) [.addNode 10, .addNode 11, .addEdge 0 1 3]).1 = w4 := by
  decide

/-! #### `adj::List` -/

/-- well-formed `adj::List` state: node indices fit the index type and every stored successor is a node (what
every history keeps whose `add_node_from_edges` calls name existing nodes: `add_node_from_edges` itself checks nothing) -/
abbrev ListWF := Visit.ListWF
/-- every row has at most 100 successors (wave 2 needed this for the old edge-id code `from * 100 + successor_index`; no
theorem needs it any more) -/
abbrev ListBounded := Visit.ListBounded

/-- `adj::List`: the table computed from the successor rows is consistent in every well-formed state (parallel
edges and self-loops included; rows of any length: the edge-id code is `pcode from successor_index`). -/
theorem C06_consistent_List (s : AdjM.State) (h : ListWF s) :
    TableConsistent (AdjM.nodeIndices s) (adjListTable s) :=
  adjListTable_consistent s h

/-- all histories from `List::new()`, of ANY length, valid or panicking calls, up to and beyond the capacity of the
index type (wave 5: no `LFits`, no budget).  The one side condition is the one the Rust API leaves to the caller: the
successors named by an `add_node_from_edges` call exist (`TargetsOkRun`: `OpTargetsOk` at the node count of the state the
call is made in; without it the statement is false, see Proofs/C06W2List.lean). -/
theorem C06_consistent_List_all_histories (m : Nat) (ops : List AdjM.Op) (ht : Visit.TargetsOkRun (AdjM.new m) ops) :
    TableConsistent (AdjM.nodeIndices (AdjM.run (AdjM.new m) ops).1) (adjListTable (AdjM.run (AdjM.new m) ops).1) :=
  (adjListTable_consistent_all_histories m ops ht).1

/-- the wave-2 statement is a corollary (its hypotheses `LFits`, `TargetsOk` imply `TargetsOkRun`; its budget ≤ 100 is
not needed) … -/
theorem C06_consistent_List_all_histories_w2 (m : Nat) (ops : List AdjM.Op)
    (hf : C05T.LFits m 0 ops) (ht : Visit.TargetsOk 0 ops) :
    TableConsistent (AdjM.nodeIndices (AdjM.run (AdjM.new m) ops).1) (adjListTable (AdjM.run (AdjM.new m) ops).1) :=
  adjListTable_consistent_all_histories' m ops hf ht

/-- … and a history without `add_node_from_edges` (all the harness generates) needs no hypothesis at all. -/
theorem C06_consistent_List_plain_histories (m : Nat) (ops : List AdjM.Op)
    (hp : ∀ op ∈ ops, ∀ es, op ≠ .addNodeFromEdges es) :
    TableConsistent (AdjM.nodeIndices (AdjM.run (AdjM.new m) ops).1) (adjListTable (AdjM.run (AdjM.new m) ops).1) :=
  C06_consistent_List_all_histories m ops (targetsOkRun_of_plain ops _ hp)

/-- the defaults of `adjListTable` for a panicking call are never used in a well-formed state. -/
theorem C06_List_table_total (s : AdjM.State) (h : ListWF s) :
    (∀ a ∈ AdjM.nodeIndices s, (AdjM.neighbors s a).isSome = true ∧ (AdjM.edgesOf s a).isSome = true) ∧
    (ALView.adjacencyMatrix s).isSome = true :=
  adjListTable_no_default s h

/-! #### `MatrixGraph` -/

/-- `MatrixGraph<_, _, _, Undirected, _, _>`: the table as it stands is consistent in every state satisfying the
C04 invariant and refinement relation (no bound on the ids: wave 5, the pair code is `pcode`). -/
theorem C06_consistent_MatrixGraph_undirected {s : Matrix.State} {g : MatrixSpec.G} (h : C04T.Inv s) (r : C04T.R s g)
    (hd : s.dir = false) :
    TableConsistent s.nodes.ids (matrixTable s) :=
  matrixTable_consistent_undirected h r hd

/-- `MatrixGraph<_, _, _, Directed, _, _>` behind the repair of the open finding D6 (`edges_directed(b, Incoming)`
yields `(b, a)` for an edge `a → b`): with the endpoints of the incoming references put right the table is consistent. -/
theorem C06_consistent_MatrixGraph_directed_repairD6 {s : Matrix.State} {g : MatrixSpec.G} (h : C04T.Inv s)
    (r : C04T.R s g) (hd : s.dir = true) :
    TableConsistent s.nodes.ids (repairD6 (matrixTable s)) :=
  matrixTable_consistent_directed h r hd

/-- … and the directed table AS IT STANDS satisfies every clause except the one D6 is about
(`neighbors_directed(Incoming)` included). -/
theorem C06_consistent_MatrixGraph_asIs_without_edgesIn {s : Matrix.State} {g : MatrixSpec.G} (h : C04T.Inv s)
    (r : C04T.R s g) :
    TableConsistent s.nodes.ids { matrixTable s with edgesIn := none } :=
  matrixTable_consistent_asIs h r

/-- all histories from every constructor (the quantifier of `C04_all_histories`: edge-writing calls between
existing nodes); no bound on the ids. -/
theorem C06_consistent_MatrixGraph_all_histories (dir nz : Bool) (ixMax k : Nat) (ops : List Matrix.Op) :
    ∃ s0, Matrix.withCapacity dir nz ixMax k = .ok s0 ∧
      (C04T.ValidHist s0 (MatrixSpec.G.empty dir) ops →
        (Matrix.run s0 ops).1.dir = dir ∧
        TableConsistent (Matrix.run s0 ops).1.nodes.ids
          (if dir then repairD6 (matrixTable (Matrix.run s0 ops).1) else matrixTable (Matrix.run s0 ops).1)) :=
  matrixTable_all_histories dir nz ixMax k ops

/-- D6 is in the model's table too: on the state reached by `add_node, add_node, add_edge 0 1` the unrepaired
table violates exactly the `edges_directed(Incoming)` clause, the repaired one is consistent by the general theorem. -/
theorem C06_MatrixGraph_D6_in_model :
    ¬ edgesInOk d6State.nodes.ids (matrixTable d6State) ∧ TableConsistent d6State.nodes.ids (repairD6 (matrixTable d6State)) :=
  ⟨matrixTable_D6_witness.1, matrixTable_D6_repaired⟩

/-! #### `Graph` -/

/-- `Graph<N, E, Ty, Ix>` (both edge types, any index width): the table computed from the node/edge arrays and the
`next` chains is consistent in every state satisfying the C01 invariant — all thirteen clauses, multigraphs and
self-loops included, no bound on the ids. -/
theorem C06_consistent_Graph (s : G.State) (h : C01T.Inv s) :
    TableConsistent (List.range s.nodes.length) (graphTable s) :=
  graphTable_consistent s h

/-- … hence after EVERY history of public calls (adds, removals, `update_edge`, `reverse`, `clear*`, `retain_*`, …). -/
theorem C06_consistent_Graph_all_histories (endv : Nat) (directed : Bool) (ops : List G.Op) :
    TableConsistent (List.range (G.run (G.empty endv directed) ops).1.nodes.length)
      (graphTable (G.run (G.empty endv directed) ops).1) :=
  graphTable_consistent_all_histories endv directed ops

/-- the iterators behind the rows never fault there and `adjacency_matrix` stays inside its bitmap, so the
empty-row default of `GView.okOr` is never used. -/
theorem C06_Graph_table_total (s : G.State) (h : C01T.Inv s) (a : Nat) (k : Bool) :
    (∃ l, G.neighborsDirected s a k = .ok l) ∧ (∃ l, G.edgesDirected s a k = .ok l) ∧
      ∀ x ∈ GView.adjMatrix s, x < s.nodes.length * s.nodes.length :=
  graphTable_no_fault s h a k

/-- every adaptor stack over a reachable `Graph` is consistent (composition with `C06_stack`). -/
theorem C06_Graph_stack (endv : Nat) (directed : Bool) (ops : List G.Op) (stack : List Op)
    (hok : StackOk (graphTable (G.run (G.empty endv directed) ops).1).directed stack) (hfo : Op.frozenOwned ∉ stack) :
    let s := (G.run (G.empty endv directed) ops).1
    TableConsistent (List.range s.nodes.length) (applyStack Cfg.ideal stack (graphTable s)) ∧
      abs (applyStack Cfg.ideal stack (graphTable s)) = specStack stack (abs (graphTable s)) :=
  C06_stack _ stack _ hok hfo (C06_consistent_Graph_all_histories endv directed ops)

/-! ### extracted from the source: the width of the adjacency bitmap (tools/extract_c06.py)

`Extracted/AdjWidth.lean` is regenerated from `/repo/src`: for every `impl GetAdjacencyMatrix for T` the size
function used when the bitmap is built and when it is read, and both bit index expressions.  These theorems are
about those generated definitions, so a change of the source that breaks them (e.g. D8 coming back: `StableGraph`
reading with `node_count`) breaks a proof obligation. -/
open PetgraphModel.Extracted in
/-- every implementation reads the bitmap with the width it was built with. -/
theorem C06_adjWidth_agree : ∀ i ∈ AdjWidth.impls, i.build = i.read := by decide

open PetgraphModel.Extracted in
/-- a type that is not compact-indexable (vacant indices below the bound) never sizes the bitmap by `node_count`. -/
theorem C06_adjWidth_noncompact : ∀ i ∈ AdjWidth.impls, i.compact = false →
    i.build ≠ AdjWidth.Width.nodeCount ∧ i.read ≠ AdjWidth.Width.nodeCount := by decide

open PetgraphModel.Extracted in
/-- the bit `adjacency_matrix` sets for an edge `s → t` is the bit `is_adjacent(s, t)` reads, and the second bit
of an undirected edge is the one `is_adjacent(t, s)` reads — for `Graph`, `StableGraph`, `Csr`, `adj::List`.
(The generated definitions are in the extractor's canonical form, so this holds by unfolding.) -/
theorem C06_adjBit_agree (n s t : Nat) :
    AdjWidth.bitBuild_Graph n s t = AdjWidth.bitRead_Graph n s t ∧
    AdjWidth.bitBuildSym_Graph n s t = AdjWidth.bitRead_Graph n t s ∧
    AdjWidth.bitBuild_StableGraph n s t = AdjWidth.bitRead_StableGraph n s t ∧
    AdjWidth.bitBuildSym_StableGraph n s t = AdjWidth.bitRead_StableGraph n t s ∧
    AdjWidth.bitBuild_Csr n s t = AdjWidth.bitRead_Csr n s t ∧
    AdjWidth.bitBuildSym_Csr n s t = AdjWidth.bitRead_Csr n t s ∧
    AdjWidth.bitBuild_List n s t = AdjWidth.bitRead_List n s t := by
  simp only [AdjWidth.bitBuild_Graph_eq, AdjWidth.bitRead_Graph_eq, AdjWidth.bitBuildSym_Graph_eq,
    AdjWidth.bitBuild_StableGraph_eq, AdjWidth.bitRead_StableGraph_eq, AdjWidth.bitBuildSym_StableGraph_eq,
    AdjWidth.bitBuild_Csr_eq, AdjWidth.bitRead_Csr_eq, AdjWidth.bitBuildSym_Csr_eq,
    AdjWidth.bitBuild_List_eq, AdjWidth.bitRead_List_eq]
  refine ⟨?_, ?_, ?_, ?_, ?_, ?_, ?_⟩ <;> simp [Nat.mul_comm, Nat.add_comm]

open PetgraphModel.Extracted in
/-- the bitmap is allocated with `width * width` bits, and the bit of every pair of indices below the width is inside it
(so `put` cannot grow or panic and `contains` cannot read past the end) — `Graph`, `StableGraph`, `Csr`, `adj::List`. -/
theorem C06_adjBit_capacity (n s t : Nat) (hs : s < n) (ht : t < n) :
    AdjWidth.bitRead_Graph n s t < AdjWidth.bitCap_Graph n ∧
    AdjWidth.bitRead_StableGraph n s t < AdjWidth.bitCap_StableGraph n ∧
    AdjWidth.bitRead_Csr n s t < AdjWidth.bitCap_Csr n ∧
    AdjWidth.bitRead_List n s t < AdjWidth.bitCap_List n := by
  simp only [AdjWidth.bitRead_Graph_eq, AdjWidth.bitRead_StableGraph_eq, AdjWidth.bitRead_Csr_eq, AdjWidth.bitRead_List_eq,
    AdjWidth.bitCap_Graph_eq, AdjWidth.bitCap_StableGraph_eq, AdjWidth.bitCap_Csr_eq, AdjWidth.bitCap_List_eq]
  have k : n * (s + 1) ≤ n * n := Nat.mul_le_mul_left _ hs
  rw [Nat.mul_add] at k
  omega

open PetgraphModel.Extracted in
/-- with all indices below the width the bitmap is a faithful matrix: distinct ordered pairs use distinct bits
(so `is_adjacent(a, b)` answers for the pair `(a, b)` and no other). -/
theorem C06_adjBit_injective (n a b a' b' : Nat) (hb : b < n) (hb' : b' < n)
    (h : AdjWidth.bitRead_StableGraph n a b = AdjWidth.bitRead_StableGraph n a' b') : a = a' ∧ b = b' := by
  simp only [AdjWidth.bitRead_StableGraph_eq] at h
  have hn : 0 < n := by omega
  have h1 : (n * a + b) / n = a := by rw [Nat.mul_add_div hn, Nat.div_eq_of_lt hb]; simp
  have h2 : (n * a' + b') / n = a' := by rw [Nat.mul_add_div hn, Nat.div_eq_of_lt hb']; simp
  have ha : a = a' := by rw [← h1, ← h2, h]
  subst ha
  exact ⟨rfl, by omega⟩

/-! ### wave 3 (follow-up to the independent audit of the theorems above)

#### 1. `Frozen<'_, G>` over the owned graph type, against the inner table; the strengthened predicate -/

/-- the audit finding, as a theorem: the conclusion of the old `C06_frozenOwned` needs no hypothesis at all. -/
theorem C06_frozenOwned_old_is_vacuous (qs : List Nat) (t : Table) : TableConsistent qs (frozenOwned t) := by
  refine ⟨?_, ?_, ?_, ?_, ?_, ?_, ?_, ?_, ?_, ?_, ?_, ?_, ?_⟩
  · intro ids hids; cases hids
  · intro ids hids; cases hids
  · intro ids hids; cases hids
  · intro _ ids hids; cases hids
  all_goals (intro er her; cases her)

/-- `TableConsistent` + the clauses that are judged from data every view has (query nodes, `node_count`, `node_bound`,
`to_index`/`from_index`, the compact flag, the `EdgeIndexable` round trips and `edge_count`, shape and symmetry of the
adjacency rows) without reference to the view's own `node_identifiers` / `edge_references` (Proofs/C06W3Spec.lean) -/
abbrev TableConsistentS := Visit.TableConsistentS

/-- `Frozen<'_, G>` over the owned type forwards the `&self` traits unchanged (every field it has is the inner graph's),
and — judged with the inner graph's `node_identifiers` / `edge_references` as the ground truth (`groundedIn`) — it
satisfies EVERY clause of the property: `node_count`, the `NodeIndexable` bound / injectivity / round trip, compactness,
`edge_count`, the `EdgeIndexable` round trip of every edge, and `is_adjacent` for every ordered pair. -/
theorem C06_frozenOwned_inner (qs : List Nat) (t : Table) (h : TableConsistent qs t) :
    TableConsistent qs (groundedIn t (frozenOwned t)) ∧
    (groundedIn t (frozenOwned t)).ids = t.ids ∧ (groundedIn t (frozenOwned t)).erefs = t.erefs ∧
    (frozenOwned t).directed = t.directed ∧ (frozenOwned t).nodeCount = t.nodeCount ∧
    (frozenOwned t).nodeBound = t.nodeBound ∧ (frozenOwned t).toIx = t.toIx ∧ (frozenOwned t).fromIx = t.fromIx ∧
    (frozenOwned t).compact = t.compact ∧ (frozenOwned t).edgeCount = t.edgeCount ∧
    (frozenOwned t).edgeBound = t.edgeBound ∧ (frozenOwned t).eix = t.eix ∧ (frozenOwned t).adj = t.adj :=
  ⟨frozenOwned_grounded h, rfl, rfl, frozenOwned_forwards t⟩

/-- … spelled out without `whenSome` on identifiers / edge references: `ids`, `er` are the inner graph's. -/
theorem C06_frozenOwned_explicit (qs : List Nat) (t : Table) (ids : List Nat) (er : List ERef)
    (h : TableConsistent qs t) (hids : t.ids = some ids) (her : t.erefs = some er) :
    let f := frozenOwned t
    (∀ n, f.nodeCount = some n → ids.length = n) ∧
    (∀ a ∈ ids, optBelow (f.toIx.lookup a) f.nodeBound) ∧
    (ids.map fun a => f.toIx.lookup a).Nodup ∧
    (∀ a ∈ ids, f.fromIx.lookup a = some a) ∧
    (f.compact = true → (ids.map fun a => (f.toIx.lookup a).getD f.nodeBound).Perm (List.range f.nodeBound)) ∧
    (∀ n, f.edgeCount = some n → er.length = n) ∧
    (∀ l eb, f.eix = some l → f.edgeBound = some eb → ∀ e ∈ er, optRound (l.lookup e.id) e.id eb) ∧
    (∀ r, f.adj = some r →
      r.map (·.1) = qs ∧ ∀ a ∈ qs, ∀ b ∈ qs, (b ∈ rowOf r a ↔ expAdj f.directed er a b = true)) :=
  frozenOwned_explicit h hids her

/-- the strengthened predicate is kept by `Frozen` over the owned type. -/
theorem C06_frozenOwned_S (qs : List Nat) (t : Table) (h : TableConsistentS qs t) : TableConsistentS qs (frozenOwned t) :=
  frozenOwned_consistentS h

/-- a base table (its `node_identifiers` are the query nodes, it has `edge_references`, its `EdgeIndexable` queries are
about exactly the listed edges) that satisfies the property satisfies the strengthened predicate. -/
theorem C06_consistentS_of_consistent (qs : List Nat) (t : Table) (er : List ERef) (h : TableConsistent qs t)
    (hids : t.ids = some qs) (her : t.erefs = some er)
    (heix : ∀ l, t.eix = some l → l.map (·.1) = er.map (·.id)) : TableConsistentS qs t :=
  consistentS_of_consistent h hids her heix

/-- `Graph` satisfies the strengthened predicate in every state satisfying the C01 invariant … -/
theorem C06_consistentS_Graph (s : G.State) (h : C01T.Inv s) :
    TableConsistentS (List.range s.nodes.length) (graphTable s) :=
  graphTable_consistentS s h

/-- … and so does `Frozen<'_, Graph>` (the harness's `frz0` view), which in addition satisfies every clause judged
against the graph it freezes — after EVERY history. -/
theorem C06_frozenOwned_Graph (endv : Nat) (directed : Bool) (ops : List G.Op) :
    let s := (G.run (G.empty endv directed) ops).1
    TableConsistentS (List.range s.nodes.length) (frozenOwned (graphTable s)) ∧
    TableConsistent (List.range s.nodes.length) (groundedIn (graphTable s) (frozenOwned (graphTable s))) := by
  intro s
  have hinv : C01T.Inv s := C01T.C01_inv_all_histories endv directed ops
  exact ⟨frozenOwned_consistentS (graphTable_consistentS s hinv), frozenOwned_grounded (graphTable_consistent s hinv)⟩

/-- the strengthened predicate is NOT vacuous on views without identifiers / edge references: three corruptions of
`Frozen<'_, Graph>` over the DESIGN witness `w1` — a wrong `node_count`, a `to_index` that is not injective, an adjacency
matrix with every bit cleared — pass the old predicate; the first two are rejected by `TableConsistentS`, the third by the
statement against the inner table. -/
theorem C06_consistentS_not_vacuous :
    (TableConsistent [0, 1, 2] { frozenOwned w1 with nodeCount := some 7 } ∧
      ¬ TableConsistentS [0, 1, 2] { frozenOwned w1 with nodeCount := some 7 }) ∧
    (TableConsistent [0, 1, 2] { frozenOwned w1 with toIx := [(0, 0), (1, 0), (2, 2)] } ∧
      ¬ TableConsistentS [0, 1, 2] { frozenOwned w1 with toIx := [(0, 0), (1, 0), (2, 2)] }) ∧
    (TableConsistent [0, 1, 2] { frozenOwned w1 with adj := some [(0, []), (1, []), (2, [])] } ∧
      ¬ TableConsistent [0, 1, 2] (groundedIn w1 { frozenOwned w1 with adj := some [(0, []), (1, []), (2, [])] })) ∧
    TableConsistentS [0, 1, 2] (frozenOwned w1) := by
  refine ⟨⟨C06_checkTable_sound _ _ (by decide), fun h => ?_⟩, ⟨C06_checkTable_sound _ _ (by decide), fun h => ?_⟩,
    ⟨C06_checkTable_sound _ _ (by decide), fun h => ?_⟩, ?_⟩
  · have := h.count 7 rfl
    simp at this
  · have := h.index.2.1
    revert this; decide
  · have := C06_checkTable_complete _ _ h
    revert this; decide
  · exact frozenOwned_consistentS (consistentS_of_consistent (er := [⟨0, 1, 0, 1⟩, ⟨1, 1, 2, 2⟩, ⟨2, 0, 0, 3⟩])
      (C06_checkTable_sound _ _ (by decide)) rfl rfl (by intro l hl; cases hl; rfl))

/-! #### 2. `StableGraph` -/

/-- `StableGraph<N, E, Ty, Ix>` (both edge types, any index width, debug and release): the table computed from the C02
storage model (`stableTable`, Model/C06Views.lean: identifiers = the live indices, vacancies skipped; `node_bound` /
`edge_bound` = last live index + 1; not compact-indexable; adjacency bitmap of width `node_bound`) satisfies all
thirteen clauses in every state satisfying the C02 invariant — vacant slots below the bounds, multigraphs and self-loops
included, no bound on the ids. -/
theorem C06_consistent_StableGraph (s : SG.State) (h : C02T.Inv s) :
    TableConsistent (SG.nodeIndices s) (stableTable s) :=
  SGW3.stableTable_consistent s h

/-- … hence after EVERY history of public calls of the C02 alphabet on a new graph (which never faults), and the
run-time judge accepts that table; the strengthened predicate holds too. -/
theorem C06_consistent_StableGraph_all_histories (directed : Bool) (fin : Nat) (noLimit debug : Bool) (ops : List SG.Op) :
    ∃ s outs, SG.run (SG.empty directed fin noLimit debug) ops = .ok (s, outs) ∧
      TableConsistent (SG.nodeIndices s) (stableTable s) ∧ checkTable (SG.nodeIndices s) (stableTable s) = true ∧
      TableConsistentS (SG.nodeIndices s) (stableTable s) := by
  obtain ⟨s, outs, hrun, hinv, _⟩ := C02T.C02_all_histories directed fin noLimit debug ops
  have hc := SGW3.stableTable_consistent s hinv
  exact ⟨s, outs, hrun, hc, C06_checkTable_complete _ _ hc, stableTable_consistentS s hinv⟩

/-- the iterators behind the rows never fault there (no out-of-bounds access, termination, no failing `debug_assert!`),
for ANY queried index, and `adjacency_matrix` stays inside its bitmap: the empty-row default of `SGView.okOr` is never
used, `stableTable` is the table of a panic-free dump. -/
theorem C06_StableGraph_table_total (s : SG.State) (h : C02T.Inv s) (a : Nat) :
    (∃ l, SG.neighborsDirected s a 0 = .ok l) ∧ (∃ l, SG.neighborsDirected s a 1 = .ok l) ∧
    (∀ dirIn, ∃ l, SG.edgesDirected s a dirIn = .ok l) ∧
    ∀ p ∈ SGView.adjMatrix s, p < SG.nodeBound s * SG.nodeBound s :=
  SGW3.stableTable_no_fault s h a

/-- every adaptor stack over a `StableGraph` satisfying the invariant is consistent (composition with `C06_stack`). -/
theorem C06_StableGraph_stack (s : SG.State) (h : C02T.Inv s) (stack : List Op)
    (hok : StackOk (stableTable s).directed stack) (hfo : Op.frozenOwned ∉ stack) :
    TableConsistent (SG.nodeIndices s) (applyStack Cfg.ideal stack (stableTable s)) ∧
      abs (applyStack Cfg.ideal stack (stableTable s)) = specStack stack (abs (stableTable s)) :=
  C06_stack _ stack _ hok hfo (C06_consistent_StableGraph s h)

/-- `Frozen<'_, StableGraph>` (the harness's `frz0` view over `StableGraph`): strengthened predicate and every clause
against the graph it freezes. -/
theorem C06_frozenOwned_StableGraph (s : SG.State) (h : C02T.Inv s) :
    TableConsistentS (SG.nodeIndices s) (frozenOwned (stableTable s)) ∧
    TableConsistent (SG.nodeIndices s) (groundedIn (stableTable s) (frozenOwned (stableTable s))) :=
  ⟨frozenOwned_consistentS (stableTable_consistentS s h), frozenOwned_grounded (SGW3.stableTable_consistent s h)⟩

/-- non-vacuity: a history that leaves a vacant node slot 0 and a vacant edge slot 0 below the bounds (a multi-edge
pair, a self-loop); the table is the non-trivial one: live ids `1, 2`, `node_count = 2 < node_bound = 3`. -/
example :
    ((SG.run (SG.empty true 4294967295 false true)
        [.addNode 11, .addNode 12, .addNode 13, .addEdge 0 1 5, .addEdge 1 2 6, .addEdge 2 2 7, .addEdge 1 2 8,
         .removeNode 0]).toOption.map fun p =>
      decide ((stableTable p.1).ids = some [1, 2] ∧ (stableTable p.1).nodeCount = some 2 ∧
        (stableTable p.1).nodeBound = 3 ∧
        (stableTable p.1).erefs = some [⟨1, 1, 2, 6⟩, ⟨2, 2, 2, 7⟩, ⟨3, 1, 2, 8⟩] ∧
        (stableTable p.1).edgeCount = some 3 ∧ (stableTable p.1).edgeBound = some 4 ∧
        (stableTable p.1).adj = some [(1, [2]), (2, [2])] ∧
        (stableTable p.1).nbrsIn = some [(1, []), (2, [1, 2, 1])])) = some true := by decide

/-! #### 3. the adaptors AS THE CODE IS

`Cfg.asIs` is the code as it stands (the switches of the findings still open in /repo are on).  Every theorem of this
section is proved for an ARBITRARY setting `cfg` of the two switches and then read at `Cfg.asIs`, so it holds whichever
of D23 / D24 are open; the hypotheses `Cfg.asIs.d24 = false` / `Cfg.asIs.d23 = false` of the "full" variants are decidable
facts about the current definition of `Cfg.asIs` (`by decide` proves the one whose finding is repaired). -/

/-- `Reversed` for any setting of the switches: it IS the ideal `Reversed` on every trait, except that with the D24 switch
on `adjacency_matrix` / `is_adjacent` are the inner graph's (that is D24, all of it). -/
theorem C06_reversed_cfg (cfg : Cfg) (t : Table) :
    reversed cfg t = { reversed Cfg.ideal t with adj := if cfg.d24 then t.adj else (reversed Cfg.ideal t).adj } :=
  reversed_cfg_eq cfg t

/-- `Reversed` as it is: the ideal adaptor — hence consistent — on every trait but `is_adjacent`, and it presents the
reversed abstract graph. -/
theorem C06_reversed_asIs (qs : List Nat) (t : Table) (h : TableConsistent qs t) :
    { reversed Cfg.asIs t with adj := none } = { reversed Cfg.ideal t with adj := none } ∧
    TableConsistent qs { reversed Cfg.asIs t with adj := none } ∧
    abs (reversed Cfg.asIs t) = (abs t).reverse :=
  ⟨reversed_cfg_dropAdj Cfg.asIs t, reversed_cfg_consistent Cfg.asIs h, abs_applyOp Cfg.asIs .rev t (by decide)⟩

/-- over an UNDIRECTED inner view D24 is invisible: `Reversed` as it is satisfies every clause. -/
theorem C06_reversed_asIs_undirected (qs : List Nat) (t : Table) (hd : t.directed = false)
    (h : TableConsistent qs t) : TableConsistent qs (reversed Cfg.asIs t) :=
  reversed_cfg_consistent_undirected Cfg.asIs hd h

/-- once D24 is repaired in the code (its switch off in `Cfg.asIs`), `Reversed` as it is IS the ideal adaptor and
satisfies every clause, `is_adjacent` included. -/
theorem C06_reversed_asIs_full (h24 : Cfg.asIs.d24 = false) (qs : List Nat) (t : Table) (h : TableConsistent qs t) :
    reversed Cfg.asIs t = reversed Cfg.ideal t ∧ TableConsistent qs (reversed Cfg.asIs t) := by
  have e := reversed_eq_ideal Cfg.asIs h24 t
  exact ⟨e, e ▸ reversed_consistent h⟩

/-- `UndirectedAdaptor` as it is: the ideal adaptor on every trait but `neighbors` / `edges` (that is D23, all of it),
consistent there, and it presents the symmetrised abstract graph. -/
theorem C06_undirectedAdaptor_asIs (qs : List Nat) (t : Table) (h : TableConsistent qs t) :
    { undirected Cfg.asIs t with nbrs := none, edges := none } =
      { undirected Cfg.ideal t with nbrs := none, edges := none } ∧
    TableConsistent qs { undirected Cfg.asIs t with nbrs := none, edges := none } ∧
    abs (undirected Cfg.asIs t) = (abs t).symmetrise := by
  have e : ({ undirected Cfg.asIs t with nbrs := none, edges := none } : Table) = dropD (undirected Cfg.asIs t) := rfl
  exact ⟨rfl, e ▸ undirected_cfg_consistent Cfg.asIs h, abs_applyOp Cfg.asIs .und t (by decide)⟩

/-- ANY depth: a stack AS IT IS that contains no `UndirectedAdaptor`, with its `GetAdjacencyMatrix` entry dropped, is
the ideal stack with that entry dropped — hence consistent — and presents the composition of the abstract operations. -/
theorem C06_stack_asIs_without_und (qs : List Nat) (ops : List Op) (t : Table) (hund : Op.und ∉ ops)
    (hok : StackOk t.directed ops) (hfo : Op.frozenOwned ∉ ops) (h : TableConsistent qs t) :
    { applyStack Cfg.asIs ops t with adj := none } = { applyStack Cfg.ideal ops t with adj := none } ∧
    TableConsistent qs { applyStack Cfg.asIs ops t with adj := none } ∧
    abs (applyStack Cfg.asIs ops t) = specStack ops (abs t) :=
  ⟨(applyStack_cfg_without_und Cfg.asIs ops t hund hok h).1, (applyStack_cfg_without_und Cfg.asIs ops t hund hok h).2,
   abs_applyStack Cfg.asIs ops t hfo⟩

/-- … and once D24 is repaired in the code (its switch off in `Cfg.asIs`) such a stack IS the ideal stack: consistent on
every trait, `is_adjacent` included. -/
theorem C06_stack_asIs_without_und_full (h24 : Cfg.asIs.d24 = false) (qs : List Nat) (ops : List Op) (t : Table)
    (hund : Op.und ∉ ops) (hok : StackOk t.directed ops) (h : TableConsistent qs t) :
    applyStack Cfg.asIs ops t = applyStack Cfg.ideal ops t ∧ TableConsistent qs (applyStack Cfg.asIs ops t) := by
  have e := applyStack_cfg_eq_ideal Cfg.asIs ops (.inl h24) (.inr hund) t
  exact ⟨e, e ▸ applyStack_consistent ops t hok h⟩

/-- a stack as it is with neither `Reversed` nor `UndirectedAdaptor` (`NodeFiltered`, `EdgeFiltered`, `Frozen`, `&G`, to
any depth) IS the ideal stack: consistent on every trait. -/
theorem C06_stack_asIs_without_rev_und (qs : List Nat) (ops : List Op) (t : Table) (hrev : Op.rev ∉ ops)
    (hund : Op.und ∉ ops) (hok : StackOk t.directed ops) (h : TableConsistent qs t) :
    applyStack Cfg.asIs ops t = applyStack Cfg.ideal ops t ∧ TableConsistent qs (applyStack Cfg.asIs ops t) := by
  have e := applyStack_cfg_eq_ideal Cfg.asIs ops (.inr hrev) (.inr hund) t
  exact ⟨e, e ▸ applyStack_consistent ops t hok h⟩

/-- EVERY stack as it is — `Reversed` and `UndirectedAdaptor` included, any depth — agrees with the ideal stack on all
traits but `neighbors`, `edges`, `is_adjacent` (identifiers, references, counts, both index traits, `edge_references`,
`neighbors_directed`, `edges_directed`) and is consistent there: the two findings reach nothing else. -/
theorem C06_stack_asIs_unaffected (qs : List Nat) (ops : List Op) (t : Table)
    (hok : StackOk t.directed ops) (h : TableConsistent qs t) :
    { applyStack Cfg.asIs ops t with nbrs := none, edges := none, adj := none } =
      { applyStack Cfg.ideal ops t with nbrs := none, edges := none, adj := none } ∧
    TableConsistent qs { applyStack Cfg.asIs ops t with nbrs := none, edges := none, adj := none } :=
  applyStack_cfg_unaffected Cfg.asIs ops t hok h

/-- the as-is theorems are not vacuous on the DESIGN witness `w1` (on which the recorded behaviour of D24 violates the
property, `C06_D24_counterexample`): with `is_adjacent` set aside `Reversed` as it is and a depth-3 as-is stack are
consistent. -/
example : TableConsistent [0, 1, 2] { reversed Cfg.asIs w1 with adj := none } :=
  (C06_reversed_asIs _ _ (C06_checkTable_sound _ _ (by decide))).2.1
example : TableConsistent [0, 1, 2] { applyStack Cfg.asIs [.nf 5, .rev, .ef 6] w1 with adj := none } :=
  (C06_stack_asIs_without_und _ _ _ (by simp) (by simp [StackOk, dirAfter, w1]) (by simp)
    (C06_checkTable_sound _ _ (by decide))).2.1

/-! #### 4. the tables denote the graphs of the storage specifications -/

/-- `Graph`: the abstract graph the table denotes is the graph of the C01 reference multigraph (`C01T.absG`, for every
ghost stamp assignment; in particular of `C01T.abs`): nodes `0..n`, the edge at position `i` is `(i, src, tgt, weight)`;
and `node_references` are the reference node weights. -/
theorem C06_table_abs_Graph (s : G.State) (st : Nat → Nat) (ck : Nat) :
    abs (graphTable s) = agraphOfCGS (C01T.absG s st ck) ∧
    (graphTable s).refs = some (refsOfCGS (C01T.absG s st ck)) :=
  graphTable_abs s st ck

/-- `GraphMap`: the abstract graph the table denotes IS the C03 simple graph on node values (`C03T.abs`): same kind, the
node list enumerates the node set once, the edge list has one reference per (un)ordered pair carrying the pair's weight. -/
theorem C06_table_abs_GraphMap (s : GM.State) (h : C03T.Inv s) : DenotesSG (abs (graphMapTable s)) (C03T.abs s) :=
  graphMapTable_abs s h

/-- `StableGraph`: the abstract graph the table denotes is the graph of the C02 reference multigraph (`C02T.abs`): the
live node indices, the live edges under their indices; `node_references` are the reference's. -/
theorem C06_table_abs_StableGraph (s : SG.State) :
    abs (stableTable s) = agraphOfSGSpec (C02T.abs s) ∧ (stableTable s).refs = some (C02T.abs s).nodeRefs :=
  stableTable_abs s


/-! ### wave 5

#### 1. the pair edge-id code is injective on ALL pairs: no bound on node ids anywhere

`MatrixGraph` and `GraphMap` identify an edge by its endpoint pair, `adj::List` by `(from, successor_index)`; the tables
(and the harness) code such a pair as ONE natural number `pcode a b`.  Wave 2 used `a * 100 + b`, which names a pair
uniquely only for `b < 100` — the source of every "ids below 100" hypothesis.  `pcode` is the square-shell pairing
function; the theorems above (`C06_consistent_GraphMap`, `_MatrixGraph_*`, `_Csr_undirected_*`, `_List*`) now hold for
all ids / node counts / row lengths. -/

theorem C06_pcode_injective (a b c d : Nat) (h : pcode a b = pcode c d) : a = c ∧ b = d := pcode_inj h

/-- the old code was NOT injective (why the bound was needed): `(0, 100)` and `(1, 0)` got the same code. -/
theorem C06_old_pair_code_false_witness : (0 * 100 + 100 = 1 * 100 + 0) ∧ ((0, 100) ≠ (1, 0)) := by decide

example : pcode 0 100 ≠ pcode 1 0 ∧ pcode 4000000000 4000000000 < 2 ^ 64 := by decide

/-! #### 2. REPLAY: the table the driver compares the real dump with is the table of a state inside the theorems' scope

`harness/src/c06.rs` prints every constructor / mutating call in the request syntax of the vertical that owns the
storage type; `C06R.parseReq` turns a request into that vertical's `Op`, `C06R.Store.exec` runs that vertical's own
`step` (Model/C06Replay.lean).  The driver answers `MODELDIFF` unless the dumped table is, field for field,
`Store.table` of the mirror state — `graphTable` / `stableTable` / `graphMapTable` / `matrixTable` / `csrTable` /
`adjListTable` — for all six types, both edge types, every intermediate state (vacancies, removed and reused ids). -/

/-- the hypotheses of the storage theorem of the store's type (C01 / C02 / C03 invariant; C04 invariant and refinement
relation; C05 `Good`, `Abs`, `IxFits`; `ListWF`) -/
abbrev StoreInv := C06R.StoreInv

/-- every constructor the driver starts a case with establishes them … -/
theorem C06_replay_init (ty : String) (dir dbg : Bool) (st : C06R.Store) (h : C06R.Store.init ty dir dbg = some st) :
    StoreInv st :=
  C06R.storeInv_init ty dir dbg st h

/-- … every request `Store.exec` ACCEPTS preserves them (any request of the owning vertical's alphabet: valid or
panicking, at or beyond capacity; refused are only requests outside the storage theorems' quantifier — then the driver
answers `SPECFAIL generator left the proved range`) … -/
theorem C06_replay_step (st st' : C06R.Store) (r : C06R.Req) (hinv : StoreInv st) (h : st.exec r = .ok st') :
    StoreInv st' :=
  C06R.storeInv_exec r hinv h

/-- … and under them the mirror's table — as it stands for `Graph`, `StableGraph`, `GraphMap`, `adj::List`, directed
`Csr`, undirected `MatrixGraph`; with the OPEN findings D6 / D7 repaired for directed `MatrixGraph` / undirected `Csr`
(`Store.repaired`) — satisfies every clause of the property. -/
theorem C06_replay_state_consistent (st : C06R.Store) (h : StoreInv st) : TableConsistent st.qs st.repaired :=
  C06R.storeInv_consistent st h

/-- **all replayed histories**: for every storage type and edge type, after EVERY sequence of requests the driver
replays (any length), the table it compares the real dump with satisfies the property (D6 / D7 repaired), and the
run-time judge accepts it. -/
theorem C06_replay_all_histories (ty : String) (dir dbg : Bool) (st0 st : C06R.Store) (rs : List C06R.Req)
    (h0 : C06R.Store.init ty dir dbg = some st0) (h : C06R.execAll st0 rs = .ok st) :
    TableConsistent st.qs st.repaired ∧ checkTable st.qs st.repaired = true := by
  have hc := C06R.replay_consistent ty dir dbg st0 st rs h0 h
  exact ⟨hc, C06_checkTable_complete _ _ hc⟩

/-- the replay IS the `run` of the owning vertical's mirror model: the replayed state is the state the
`C06_consistent_<Type>_all_histories` theorems (and the all-histories theorems of C01–C05) talk about. -/
theorem C06_replay_is_run :
    (∀ (ops : List G.Op) (s : G.State) (st : C06R.Store),
      C06R.execAll (.graph s) (ops.map .gOp) = .ok st → st = .graph (G.run s ops).1) ∧
    (∀ (ops : List SG.Op) (s : SG.State) (st : C06R.Store),
      C06R.execAll (.stable s) (ops.map .sOp) = .ok st → ∃ s' outs, SG.run s ops = .ok (s', outs) ∧ st = .stable s') ∧
    (∀ (ops : List GM.Op) (s : GM.State) (st : C06R.Store),
      C06R.execAll (.map s) (ops.map .mOp) = .ok st → st = .map (GM.run s ops).1) ∧
    (∀ (ops : List Matrix.Op) (s : Matrix.State) (st : C06R.Store),
      C06R.execAll (.matrix s) (ops.map .xOp) = .ok st → st = .matrix (Matrix.run s ops).1) ∧
    (∀ (ops : List CsrM.Op) (s : CsrM.State) (st : C06R.Store),
      C06R.execAll (.csr s) (ops.map .cOp) = .ok st → st = .csr (CsrM.run s ops).1) ∧
    (∀ (ops : List AdjM.Op) (s : AdjM.State) (st : C06R.Store),
      C06R.execAll (.list s) (ops.map .lOp) = .ok st → st = .list (AdjM.run s ops).1) :=
  ⟨C06R.replay_graph_is_run, C06R.replay_stable_is_run, C06R.replay_map_is_run, C06R.replay_matrix_is_run,
   C06R.replay_csr_is_run, C06R.replay_list_is_run⟩

/-- the defaults `csrTable` uses for a panicking call are never used on a replayed `Csr` state. -/
theorem C06_replay_Csr_callsOk (s : CsrM.State) (h : StoreInv (.csr s)) : CsrView.callsOk s :=
  C06R.storeInv_csr_callsOk s h

/-- non-vacuity: the hypotheses are met by replayed histories with removals (a vacant `StableGraph` slot, a removed and
reused `MatrixGraph` id), and the tables are the non-trivial ones. -/
example :
    ((C06R.Store.init "stable" true).bind fun st0 =>
      (C06R.execAll st0 [.sNew, .sOp (.addNode 11), .sOp (.addNode 12), .sOp (.addNode 13), .sOp (.addEdge 0 1 5),
          .sOp (.addEdge 1 2 6), .sOp (.removeNode 0)]).toOption.map fun st =>
        decide (st.table.ids = some [1, 2] ∧ st.table.nodeBound = 3 ∧ st.table.erefs = some [⟨1, 1, 2, 6⟩]))
      = some true := by decide
example :
    ((C06R.Store.init "matrix" false).bind fun st0 =>
      (C06R.execAll st0 [.xNew 2, .xOp (.addNode 11), .xOp (.addNode 12), .xOp (.addNode 13), .xOp (.addEdge 0 2 5),
          .xOp (.removeNode 1), .xOp (.addNode 14), .xOp (.addEdge 1 1 7)]).toOption.map fun st =>
        decide (st.table.ids = some [0, 1, 2] ∧ st.table.refs = some [(0, 11), (1, 14), (2, 13)] ∧
          st.table.erefs = some [⟨pcode 1 1, 1, 1, 7⟩, ⟨pcode 0 2, 2, 0, 5⟩]))
      = some true := by decide
/-- a request outside C04's quantifier (an edge to an id that is not live) is refused, not replayed. -/
example :
    ((C06R.Store.init "matrix" true).map fun st0 =>
      (C06R.execAll st0 [.xNew 0, .xOp (.addNode 11), .xOp (.addEdge 0 3 5)]).toOption.isNone) = some true := by decide

/-! #### 3. run-time checks of the hypotheses (G-A)

Every hypothesis of a theorem above that concerns the concrete case has an executable form the driver evaluates on every
line it judges; what passes is provably inside the theorems' scope. -/

/-- `StackOk` (hypothesis of `C06_stack*`): the driver evaluates `stackOkB base.directed stack` on every `view` line
(`SPECFAIL generator left the proved range` otherwise; the generator uses the orientation-dependent predicates 6 and 8
on directed views only). -/
theorem C06_stackOk_check (d : Bool) (ops : List Op) (h : C06Checks.stackOkB d ops = true) : StackOk d ops :=
  C06R.stackOk_check ops d h

/-- the check refuses nothing that is in scope. -/
theorem C06_stackOk_check_complete (d : Bool) (ops : List Op) (h : StackOk d ops) : C06Checks.stackOkB d ops = true :=
  C06R.stackOk_complete ops d h

/-- `TableConsistent` of the base (hypothesis of every adaptor theorem) is what the driver evaluates on every `base`
dump: `checkTableWhy` answers no violated clause. -/
theorem C06_baseConsistent_check (qs : List Nat) (t : Table) (h : checkTableWhy qs t = []) : TableConsistent qs t :=
  C06_checkTable_sound qs t (by simp [checkTable, h])

/-- C04's quantifier (`Valid`: an edge-writing call names two live nodes) is what `Store.exec` evaluates before it
replays a `MatrixGraph` request. -/
theorem C06_matrixValid_check {s : Matrix.State} {g : MatrixSpec.G} (r : C04T.R s g) (op : Matrix.Op)
    (h : C06R.matrixValidB s op = true) : C04T.Valid s.nz g op :=
  C06R.matrixValid_check r op h

/-- `CsrIxFits` of a freshly constructed `Csr` (`with_nodes`, `from_sorted_edges`) is what `Store.exec` evaluates. -/
theorem C06_csrIxFits_check (s : CsrM.State) (h : C06R.csrIxFitsB s = true) : CsrIxFits s :=
  C06R.csrIxFits_check h

/-- **every judged `view` line is inside the scope of the adaptor theorems**: if the two checks the driver makes pass —
the base dump is consistent, the stack is `StackOk` — then the table the driver expects, `applyStack Cfg.asIs stack base`
(the PROVED adaptor functions with the as-is configuration), agrees with the ideal stack on every trait the open finding
D23 does not reach and is consistent there, presents the composed abstract graph, and IS the ideal stack — consistent on
every trait — when the stack contains no `UndirectedAdaptor`. -/
theorem C06_view_expected_in_scope (base : Table) (ops : List Op)
    (hbase : checkTableWhy (base.ids.getD []) base = []) (hstack : C06Checks.stackOkB base.directed ops = true) :
    let qs := base.ids.getD []
    TableConsistent qs { applyStack Cfg.asIs ops base with nbrs := none, edges := none, adj := none } ∧
    (Op.frozenOwned ∉ ops → abs (applyStack Cfg.asIs ops base) = specStack ops (abs base)) ∧
    (Op.und ∉ ops → applyStack Cfg.asIs ops base = applyStack Cfg.ideal ops base ∧
      TableConsistent qs (applyStack Cfg.asIs ops base)) := by
  intro qs
  have hb := C06_baseConsistent_check qs base hbase
  have hs := C06_stackOk_check _ _ hstack
  exact ⟨(C06_stack_asIs_unaffected qs ops base hs hb).2, fun hfo => C06_stack_abs_asIs ops base hfo,
    fun hund => C06_stack_asIs_without_und_full (by decide) qs ops base hund hs hb⟩

example : C06Checks.stackOkB w1.directed [.nf 5, .rev, .ef 6] = true ∧ C06Checks.stackOkB w2.directed [.ef 6] = false ∧
    checkTableWhy (w1.ids.getD []) w1 = [] := by decide

/-! #### 4. the tables of `MatrixGraph`, `Csr`, `adj::List` denote the graphs of the storage specifications -/

/-- `MatrixGraph`: the abstract graph the table denotes IS the C04 simple graph `g` the state refines (`C04T.R`): same
kind, the node list enumerates the live ids once and `node_references` carry their weights, the edge list has one
reference per ordered pair (per unordered pair when undirected, either orientation) carrying the pair's weight. -/
theorem C06_table_abs_MatrixGraph {s : Matrix.State} {g : MatrixSpec.G} (h : C04T.Inv s) (r : C04T.R s g) :
    DenotesMG (abs (matrixTable s)) (Matrix.nodeRefs s) g ∧ (matrixTable s).refs = some (Matrix.nodeRefs s) :=
  matrixTable_abs h r

/-- `Csr`: the abstract graph the table denotes IS the C05 simple graph `g` the state represents (`C05T.Abs`): nodes
`0..n` with `g`'s weights; a reference `a → b` with weight `w` is listed exactly when `g` has that edge — for an
undirected `Csr`, as the code stands, therefore in both orientations (finding D7) — at most once per ordered pair. -/
theorem C06_table_abs_Csr {s : CsrM.State} {R : List CsrProofs.Row} {g : AppendSpec.SG} (good : C05T.Good s R)
    (ab : C05T.Abs s R g) (hf : CsrIxFits s) :
    DenotesCsr (abs (csrTable s)) (CsrM.nodeReferences s) g ∧ (csrTable s).refs = some (CsrM.nodeReferences s) :=
  csrTable_abs good ab hf

/-- `adj::List`: the abstract graph the table denotes IS the C05 insertion log `g` (`C05T.LAbs`; a multigraph): directed,
nodes `0..n`, the edge references are exactly the logged edges, each once. -/
theorem C06_table_abs_List (s : AdjM.State) (g : AppendSpec.ML) (h : ListWF s) (ab : C05T.LAbs s g) :
    DenotesML (abs (adjListTable s)) g :=
  adjListTable_abs s g h ab

/-- … after every history (the abstract graph is the specification machine's: `C04T.absRun`, `C05T.lspecRun`). -/
theorem C06_table_abs_MatrixGraph_all_histories (dir nz : Bool) (ixMax k : Nat) (ops : List Matrix.Op) :
    ∃ s0, Matrix.withCapacity dir nz ixMax k = .ok s0 ∧
      (C04T.ValidHist s0 (MatrixSpec.G.empty dir) ops →
        DenotesMG (abs (matrixTable (Matrix.run s0 ops).1)) (Matrix.nodeRefs (Matrix.run s0 ops).1)
          (C04T.absRun s0 (MatrixSpec.G.empty dir) ops)) := by
  obtain ⟨s0, e, hh⟩ := C04T.C04_all_histories dir nz ixMax k ops
  exact ⟨s0, e, fun hv => (matrixTable_abs (hh hv).1 (hh hv).2.1).1⟩

theorem C06_table_abs_List_all_histories (m : Nat) (ops : List AdjM.Op) (ht : Visit.TargetsOkRun (AdjM.new m) ops) :
    DenotesML (abs (adjListTable (AdjM.run (AdjM.new m) ops).1)) (C05T.lspecRun m {} ops).1 :=
  adjListTable_abs _ _ (run_wf' ops (AdjM.new m) (new_wf m) ht) (C05T.C05_list_all_histories m ops).1

theorem C06_table_abs_Csr_all_histories (d : Bool) (m c : Nat) (dbg : Bool) (n : Nat) (ops : List CsrM.Op)
    (h0 : m = 0 ∨ n ≤ m) :
    let s := (CsrM.run (CsrM.withNodes d m c dbg n) ops).1
    DenotesCsr (abs (csrTable s)) (CsrM.nodeReferences s)
      (C05T.specRun m { directed := d, nodes := List.replicate n 0, edges := [] } ops).1 := by
  intro s
  obtain ⟨R, good, ab, _, hf⟩ := CsrW2.csr_run_facts (CsrProofs.good_withNodes d m c dbg n)
    (C05T.C05_csr_inv_init d m c dbg n).2.2 ops
    (by simpa [CsrW2.IxFits, CsrM.withNodes, CsrM.State.nodeCount] using h0)
  exact (csrTable_abs good ab hf).1

/-- non-vacuity: an undirected `Csr` history (self-loop, duplicate edge, `add_node` after edges) and an `adj::List`
history with parallel edges and an overwrite. -/
example :
    let s := (CsrM.run (CsrM.withNodes false 256 32 true 3) [.addEdge 0 2 5, .addEdge 1 1 7, .addEdge 2 0 9, .addNode 4,
      .addEdge 3 0 2]).1
    DenotesCsr (abs (csrTable s)) (CsrM.nodeReferences s)
      (C05T.specRun 256 { directed := false, nodes := List.replicate 3 0, edges := [] }
        [.addEdge 0 2 5, .addEdge 1 1 7, .addEdge 2 0 9, .addNode 4, .addEdge 3 0 2]).1 :=
  C06_table_abs_Csr_all_histories false 256 32 true 3 _ (by omega)
example : DenotesML (abs (adjListTable (AdjM.run (AdjM.new 256)
      [.addNode, .addNode, .addEdge 0 1 5, .addEdge 0 1 6, .updateEdge 0 1 9, .addEdge 1 1 3]).1))
    (C05T.lspecRun 256 {} [.addNode, .addNode, .addEdge 0 1 5, .addEdge 0 1 6, .updateEdge 0 1 9, .addEdge 1 1 3]).1 :=
  C06_table_abs_List_all_histories 256 _ (targetsOkRun_of_plain _ _ (by
    intro op hop es; simp only [List.mem_cons, List.not_mem_nil, or_false] at hop
    rcases hop with rfl | rfl | rfl | rfl | rfl | rfl <;> simp))

/-- non-vacuity: a `MatrixGraph` history inside the quantifier (the D6 witness state). -/
example : DenotesMG (abs (matrixTable d6State)) (Matrix.nodeRefs d6State)
    (C04T.absRun d6Init (MatrixSpec.G.empty true) d6Ops) := by
  obtain ⟨s0, e, hh⟩ := C06_table_abs_MatrixGraph_all_histories true false 255 0 d6Ops
  rw [d6_init] at e; cases e
  exact hh d6_valid

/-! ### wave 6: laws checked by the harness against the implementation itself

`law …` protocol lines: the iterator laws (`harness/src/iterlaws.rs`: `size_hint`, `count`, `last`, `nth`, `skip`,
`step_by`, `fold`, `rev`/`next_back`/`nth_back`/`rfold`, `len`; fresh and mid-iteration; the items compared INCLUDING
`EdgeRef::id()`) on every trait-level iterator (`node_identifiers`, `node_references`, `edge_references`, `neighbors`,
`neighbors_directed`, `edges`, `edges_directed`) of every base table dump and every adaptor stack whose iterator type is
`Clone`, on the inherent iterators of the base types, and `clone_from`/`clone`/`Default`/`Debug` laws of the base types.
The specification of these lines is the std `Iterator`/`Clone`/`Default` contract, decided in the harness (trusted);
what is proved is that the driver cannot excuse a violation. -/

/-- the judge of a `law` line answers `ok` exactly for the implementation answer `ok`: in every driver state, for every
law name, a `VIOLATED …` answer is a SPECFAIL (there is no known-finding classifier on this path). -/
theorem C06_law_judge (d : C06.DState) (what : List String) (impl : String) :
    C06.stepLaw d what impl = "ok" ↔ impl = "ok" :=
  C06W6.stepLaw_ok_iff d what impl

/-- non-vacuity: the violation the seeded `nth` override of `Csr::edges` produces is refused. -/
example : C06.stepLaw {} ["view", "ref"] "VIOLATED edges at node 0: nth(1) = Some(\"0/0/1/3\"), stepping with next gives Some(\"1/0/1/3\")" ≠ "ok" := by
  rw [Ne, C06_law_judge]; decide

end PetgraphModel.C06T
