import PetgraphModel.Model.VisitTable
import PetgraphModel.Spec.VisitSpec
import PetgraphModel.Proofs.VisitTable
import PetgraphModel.Extracted.AdjWidth
/-
C06 — every graph type and adaptor shows one consistent graph through the `visit` traits.

Objects: `Table` (everything the visit traits answer for one view, Model/VisitTable.lean), the adaptors as
functions `Table → Table` (tied to /repo/src/visit/*.rs by the exact correspondence run of `./check C06`:
every adaptor table dumped from the real crate equals the model computed from the dumped base table),
`TableConsistent` = the clauses of the property statement, `abs` = the abstract graph a table denotes
(Spec/VisitSpec.lean).

What is proved here, for ALL tables (no bound on size, any stacking depth):
  * the run-time judge `checkTable` accepts exactly the consistent tables (verified checker);
  * each adaptor model presents exactly the reversed / symmetrised / node-induced / edge-restricted /
    identical abstract graph, and its table is again consistent over the traits it implements;
  * the code as it stands (`Cfg.asIs`) is refuted on witnesses for D23 and D24, and the recorded dumps of
    `MatrixGraph<Directed>` (D6) and `Csr<Undirected>` (D7) are refuted / repaired on witnesses.

Not provable in this vertical: `TableConsistent` of the six storage types' own tables in every reachable state
(DESIGN `C06_consistent_<Type>`) needs the storage models of C01–C05; here those tables are judged on every
run by `checkTable`, whose soundness is `C06_checkTable_sound`.
Only property theorems live here; lemmas are in Proofs/VisitTable.lean.
-/
namespace PetgraphModel.C06T
open PetgraphModel.Visit

/-- the judge is sound: a table it accepts satisfies every clause of the property over the traits present. -/
theorem C06_checkTable_sound (qs : List Nat) (t : Table) (h : checkTable qs t = true) : TableConsistent qs t :=
  (checkTable_iff qs t).mp h

/-- … and complete: it rejects no consistent table (so a SPECFAIL is a real violation of a clause). -/
theorem C06_checkTable_complete (qs : List Nat) (t : Table) (h : TableConsistent qs t) : checkTable qs t = true :=
  (checkTable_iff qs t).mpr h

/-- `Reversed`: presents the reversed graph, consistently across all traits it implements
(neighbors, edges, both directed variants, the adjacency matrix, counts, indices). -/
theorem C06_reversed (qs : List Nat) (t : Table) (h : TableConsistent qs t) :
    TableConsistent qs (reversed Cfg.ideal t) ∧ abs (reversed Cfg.ideal t) = (abs t).reverse :=
  ⟨reversed_consistent h, abs_applyOp Cfg.ideal .rev t (by decide)⟩

/-- `UndirectedAdaptor`: presents the symmetrisation (over a directed or an undirected view). -/
theorem C06_undirectedAdaptor (qs : List Nat) (t : Table) (h : TableConsistent qs t) :
    TableConsistent qs (undirected Cfg.ideal t) ∧ abs (undirected Cfg.ideal t) = (abs t).symmetrise :=
  ⟨undirected_consistent h, abs_applyOp Cfg.ideal .und t (by decide)⟩

/-- `NodeFiltered`: presents the node-induced subgraph, for every node predicate (bit mask `m`);
a filtered-out query node has no neighbours and no edges. -/
theorem C06_nodeFiltered (qs : List Nat) (t : Table) (m : Nat) (h : TableConsistent qs t) :
    TableConsistent qs (nodeFiltered m t) ∧ abs (nodeFiltered m t) = (abs t).induce (inMask m) :=
  ⟨nodeFiltered_consistent m h, abs_applyOp Cfg.ideal (.nf m) t (by simp)⟩

/-- `EdgeFiltered`: presents the edge-restricted graph, for EVERY predicate `q` on edge references —
on an undirected view `q` must not depend on the orientation the edge is reported in. -/
theorem C06_edgeFiltered (qs : List Nat) (t : Table) (q : ERef → Bool)
    (hq : t.directed = false → ∀ e, q e.swap = q e) (h : TableConsistent qs t) :
    TableConsistent qs (edgeFiltered q t) ∧ abs (edgeFiltered q t) = (abs t).restrict q := by
  refine ⟨edgeFiltered_consistent q hq h, ?_⟩
  simp only [edgeFiltered, abs, AGraph.restrict]; cases t.erefs <;> simp

/-- `Frozen` and the `&G` delegation present the identical table. -/
theorem C06_identity (cfg : Cfg) (t : Table) : applyOp cfg .frozen t = t ∧ applyOp cfg .ref t = t := ⟨rfl, rfl⟩

/-- `Frozen<'_, G>` over the owned graph type: the `&self` traits only, still consistent. -/
theorem C06_frozenOwned (qs : List Nat) (t : Table) (h : TableConsistent qs t) : TableConsistent qs (frozenOwned t) :=
  frozenOwned_consistent h

/-- the harness's orientation-independent predicates really are (all codes but 6 and 8). -/
theorem C06_predSymmetric (p : Nat) (hp : predSymmetric p = true) (e : ERef) : evalPred p e.swap = evalPred p e :=
  evalPred_symmetric p hp e

/-- ANY stacking depth: a stack of adaptors over a consistent table is consistent and presents the composition
of the abstract operations.  (`StackOk`: edge predicates are orientation independent wherever the view they are
applied to is undirected.) -/
theorem C06_stack (qs : List Nat) (ops : List Op) (t : Table) (hok : StackOk t.directed ops)
    (hfo : Op.frozenOwned ∉ ops) (h : TableConsistent qs t) :
    TableConsistent qs (applyStack Cfg.ideal ops t) ∧ abs (applyStack Cfg.ideal ops t) = specStack ops (abs t) :=
  ⟨applyStack_consistent ops t hok h, abs_applyStack Cfg.ideal ops t hfo⟩

/-- depth 2 is a corollary, not an enumeration. -/
theorem C06_depth2 (qs : List Nat) (o1 o2 : Op) (t : Table) (hok : StackOk t.directed [o1, o2])
    (hfo : Op.frozenOwned ∉ [o1, o2]) (h : TableConsistent qs t) :
    TableConsistent qs (applyOp Cfg.ideal o2 (applyOp Cfg.ideal o1 t)) ∧
      abs (applyOp Cfg.ideal o2 (applyOp Cfg.ideal o1 t)) = specOp o2 (specOp o1 (abs t)) :=
  C06_stack qs [o1, o2] t hok hfo h

/-- the abstraction law holds for the code as it stands too (D23/D24 do not touch identifiers, edge references
or the direction flag) — it is the per-node iterators and the adjacency matrix that disagree with it. -/
theorem C06_stack_abs_asIs (ops : List Op) (t : Table) (hfo : Op.frozenOwned ∉ ops) :
    abs (applyStack Cfg.asIs ops t) = specStack ops (abs t) :=
  abs_applyStack Cfg.asIs ops t hfo

/-- "the same abstract graph" is an equivalence relation (what the per-run judge compares with). -/
theorem C06_same_equivalence :
    (∀ g : AGraph, g.Same g) ∧ (∀ g h : AGraph, g.Same h → h.Same g) ∧
    (∀ g h k : AGraph, g.Same h → h.Same k → g.Same k) :=
  ⟨fun _ => ⟨rfl, List.Perm.refl _, List.Perm.refl _⟩,
   fun _ _ ⟨h1, h2, h3⟩ => ⟨h1.symm, h2.symm, h3.symm⟩,
   fun _ _ _ ⟨h1, h2, h3⟩ ⟨k1, k2, k3⟩ => ⟨h1.trans k1, h2.trans k2, h3.trans k3⟩⟩

/-! ### witnesses -/

/-- DESIGN §5 witness of D23/D24: digraph `1 → 0`, `1 → 2`, loop `0 → 0`, as `Graph` presents it. -/
def w1 : Table :=
  let e0 : ERef := ⟨0, 1, 0, 1⟩
  let e1 : ERef := ⟨1, 1, 2, 2⟩
  let e2 : ERef := ⟨2, 0, 0, 3⟩
  { directed := true, ids := some [0, 1, 2], refs := some [(0, 10), (1, 11), (2, 12)], nodeCount := some 3,
    nodeBound := 3, toIx := [(0, 0), (1, 1), (2, 2)], fromIx := [(0, 0), (1, 1), (2, 2)], compact := true,
    erefs := some [e0, e1, e2], edgeCount := some 3, edgeBound := some 3, eix := some [(0, 0, 0), (1, 1, 1), (2, 2, 2)],
    nbrs := some [(0, [0]), (1, [2, 0]), (2, [])], nbrsOut := some [(0, [0]), (1, [2, 0]), (2, [])],
    nbrsIn := some [(0, [0, 1]), (1, []), (2, [1])],
    edges := some [(0, [e2]), (1, [e1, e0]), (2, [])], edgesOut := some [(0, [e2]), (1, [e1, e0]), (2, [])],
    edgesIn := some [(0, [e2, e0]), (1, []), (2, [e1])],
    adj := some [(0, [0]), (1, [0, 2]), (2, [])] }

/-- an undirected graph with the single edge `0 – 1`, as `Graph` presents it -/
def w2 : Table :=
  let e : ERef := ⟨0, 0, 1, 5⟩
  { directed := false, ids := some [0, 1], refs := some [(0, 10), (1, 11)], nodeCount := some 2,
    nodeBound := 2, toIx := [(0, 0), (1, 1)], fromIx := [(0, 0), (1, 1)], compact := true,
    erefs := some [e], edgeCount := some 1, edgeBound := some 1, eix := some [(0, 0, 0)],
    nbrs := some [(0, [1]), (1, [0])], nbrsOut := some [(0, [1]), (1, [0])], nbrsIn := some [(0, [1]), (1, [0])],
    edges := some [(0, [e]), (1, [e.swap])], edgesOut := some [(0, [e]), (1, [e.swap])],
    edgesIn := some [(0, [e.swap]), (1, [e])],
    adj := some [(0, [1]), (1, [0])] }

/-- `MatrixGraph<Directed>` with the single edge `1 → 0` (weight 7), as dumped from the real crate (D6) -/
def w3 : Table :=
  { directed := true, ids := some [0, 1], refs := some [(0, 11), (1, 12)], nodeCount := some 2,
    nodeBound := 2, toIx := [(0, 0), (1, 1)], fromIx := [(0, 0), (1, 1)], compact := false,
    erefs := some [⟨100, 1, 0, 7⟩], edgeCount := some 1, edgeBound := none, eix := none,
    nbrs := some [(0, []), (1, [0])], nbrsOut := some [(0, []), (1, [0])], nbrsIn := some [(0, [1]), (1, [])],
    edges := some [(0, []), (1, [⟨100, 1, 0, 7⟩])], edgesOut := some [(0, []), (1, [⟨100, 1, 0, 7⟩])],
    edgesIn := some [(0, [⟨1, 0, 1, 7⟩]), (1, [])],
    adj := some [(0, []), (1, [0])] }

/-- `Csr<Undirected>` with the single edge `0 – 1` (weight 3), as dumped from the real crate (D7) -/
def w4 : Table :=
  { directed := false, ids := some [0, 1], refs := some [(0, 10), (1, 11)], nodeCount := some 2,
    nodeBound := 2, toIx := [(0, 0), (1, 1)], fromIx := [(0, 0), (1, 1)], compact := true,
    erefs := some [⟨0, 0, 1, 3⟩, ⟨1, 1, 0, 3⟩], edgeCount := some 1, edgeBound := none, eix := none,
    nbrs := some [(0, [1]), (1, [0])], nbrsOut := none, nbrsIn := none,
    edges := some [(0, [⟨0, 0, 1, 3⟩]), (1, [⟨1, 1, 0, 3⟩])], edgesOut := none, edgesIn := none,
    adj := some [(0, [1]), (1, [0])] }

/-- the hypotheses of the adaptor theorems are satisfiable by non-trivial states (self-loop, both directions). -/
example : TableConsistent [0, 1, 2] w1 := C06_checkTable_sound _ _ (by decide)
example : TableConsistent [0, 1] w2 := C06_checkTable_sound _ _ (by decide)
example : StackOk w1.directed [.nf 5, .rev, .ef 6] := by simp [StackOk, dirAfter, w1]
example : TableConsistent [0, 1, 2] (applyStack Cfg.ideal [.nf 5, .rev, .ef 6] w1) :=
  (C06_stack _ _ _ (by simp [StackOk, dirAfter, w1]) (by simp) (C06_checkTable_sound _ _ (by decide))).1

/-- D23 (open): the code as it stands — `UndirectedAdaptor` chaining `Incoming` then `Outgoing` unchanged —
violates the property on the DESIGN witness (`edges(0)` yields `1 → 0` with source 1 and the loop twice),
while the ideal adaptor is consistent there. -/
theorem C06_D23_counterexample :
    TableConsistent [0, 1, 2] w1 ∧ ¬ TableConsistent [0, 1, 2] (undirected Cfg.asIs w1) ∧
    TableConsistent [0, 1, 2] (undirected Cfg.ideal w1) := by
  refine ⟨C06_checkTable_sound _ _ (by decide), fun h => ?_, C06_checkTable_sound _ _ (by decide)⟩
  have := C06_checkTable_complete _ _ h
  revert this; decide

/-- D23 over an undirected view: the same chain lists every incident edge twice. -/
theorem C06_D23_undirected_base_counterexample :
    TableConsistent [0, 1] w2 ∧ ¬ TableConsistent [0, 1] (undirected Cfg.asIs w2) := by
  refine ⟨C06_checkTable_sound _ _ (by decide), fun h => ?_⟩
  have := C06_checkTable_complete _ _ h
  revert this; decide

/-- D24 (open): `GetAdjacencyMatrix for Reversed` delegated to the inner graph is not reversed with the rest. -/
theorem C06_D24_counterexample :
    ¬ TableConsistent [0, 1, 2] (reversed Cfg.asIs w1) ∧ TableConsistent [0, 1, 2] (reversed Cfg.ideal w1) := by
  refine ⟨fun h => ?_, C06_checkTable_sound _ _ (by decide)⟩
  have := C06_checkTable_complete _ _ h
  revert this; decide

/-- D6 (open): the table `MatrixGraph<Directed>` presents violates the `edges_directed(Incoming)` clause;
with the endpoints of the incoming references put right (`repairD6`) it is consistent. -/
theorem C06_D6_counterexample :
    ¬ TableConsistent [0, 1] w3 ∧ ¬ edgesInOk [0, 1] w3 ∧ TableConsistent [0, 1] (repairD6 w3) := by
  refine ⟨fun h => ?_, by decide, C06_checkTable_sound _ _ (by decide)⟩
  have := C06_checkTable_complete _ _ h
  revert this; decide

/-- D7 (open): `Csr<Undirected>::edge_references` lists the edge twice for `edge_count() == 1`;
with one reference per edge (`repairD7`) the table is consistent. -/
theorem C06_D7_counterexample :
    ¬ TableConsistent [0, 1] w4 ∧ ¬ erefsOk w4 ∧ TableConsistent [0, 1] (repairD7 w4) := by
  refine ⟨fun h => ?_, by decide, C06_checkTable_sound _ _ (by decide)⟩
  have := C06_checkTable_complete _ _ h
  revert this; decide

/-! ### extracted from the source: the width of the adjacency bitmap (tools/extract_c06.py)

`Extracted/AdjWidth.lean` is regenerated from `/repo/src`: for every `impl GetAdjacencyMatrix for T` the size
function used when the bitmap is built and when it is read, and both bit index expressions.  These theorems are
about those generated definitions, so a change of the source that breaks them (e.g. D8 coming back: `StableGraph`
reading with `node_count`) breaks a proof obligation. -/
open PetgraphModel.Extracted in
/-- every implementation reads the bitmap with the width it was built with. -/
theorem C06_adjWidth_agree : ∀ i ∈ AdjWidth.impls, i.build = i.read := by decide

open PetgraphModel.Extracted in
/-- a type that is not compact-indexable (vacant indices below the bound) never sizes the bitmap by `node_count`. -/
theorem C06_adjWidth_noncompact : ∀ i ∈ AdjWidth.impls, i.compact = false →
    i.build ≠ AdjWidth.Width.nodeCount ∧ i.read ≠ AdjWidth.Width.nodeCount := by decide

open PetgraphModel.Extracted in
/-- the bit `adjacency_matrix` sets for an edge `s → t` is the bit `is_adjacent(s, t)` reads, and the second bit
of an undirected edge is the one `is_adjacent(t, s)` reads — for `Graph`, `StableGraph`, `Csr`, `adj::List`. -/
theorem C06_adjBit_agree (n s t : Nat) :
    AdjWidth.bitBuild_Graph n s t = AdjWidth.bitRead_Graph n s t ∧
    AdjWidth.bitBuildSym_Graph n s t = AdjWidth.bitRead_Graph n t s ∧
    AdjWidth.bitBuild_StableGraph n s t = AdjWidth.bitRead_StableGraph n s t ∧
    AdjWidth.bitBuildSym_StableGraph n s t = AdjWidth.bitRead_StableGraph n t s ∧
    AdjWidth.bitBuild_Csr n s t = AdjWidth.bitRead_Csr n s t ∧
    AdjWidth.bitBuildSym_Csr n s t = AdjWidth.bitRead_Csr n t s ∧
    AdjWidth.bitBuild_List n s t = AdjWidth.bitRead_List n s t := by
  simp only [AdjWidth.bitBuild_Graph, AdjWidth.bitRead_Graph, AdjWidth.bitBuildSym_Graph,
    AdjWidth.bitBuild_StableGraph, AdjWidth.bitRead_StableGraph, AdjWidth.bitBuildSym_StableGraph,
    AdjWidth.bitBuild_Csr, AdjWidth.bitRead_Csr, AdjWidth.bitBuildSym_Csr,
    AdjWidth.bitBuild_List, AdjWidth.bitRead_List]
  refine ⟨?_, ?_, ?_, ?_, ?_, ?_, ?_⟩ <;> simp [Nat.mul_comm, Nat.add_comm]

open PetgraphModel.Extracted in
/-- with all indices below the width the bitmap is a faithful matrix: distinct ordered pairs use distinct bits
(so `is_adjacent(a, b)` answers for the pair `(a, b)` and no other). -/
theorem C06_adjBit_injective (n a b a' b' : Nat) (hb : b < n) (hb' : b' < n)
    (h : AdjWidth.bitRead_StableGraph n a b = AdjWidth.bitRead_StableGraph n a' b') : a = a' ∧ b = b' := by
  simp only [AdjWidth.bitRead_StableGraph] at h
  have hn : 0 < n := by omega
  have h1 : (n * a + b) / n = a := by rw [Nat.mul_add_div hn, Nat.div_eq_of_lt hb]; simp
  have h2 : (n * a' + b') / n = a' := by rw [Nat.mul_add_div hn, Nat.div_eq_of_lt hb']; simp
  have ha : a = a' := by rw [← h1, ← h2, h]
  subst ha
  exact ⟨rfl, by omega⟩

end PetgraphModel.C06T
