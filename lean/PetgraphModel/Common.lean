/-
Shared helpers of the line-protocol driver (core Lean only, so that `pgmodel` links).

One protocol line is  `<request> => <implementation answer>`.  A property handler receives the
request words and the implementation's answer and returns a verdict line:

  ok                      model = implementation (exact part) and the spec-level judge accepts
  MODELDIFF <detail>      mirrored model and implementation differ, spec-level judge still accepts
  SPECFAIL <detail>       the implementation's answer violates the property's abstract statement
  KNOWN <id> <detail>     SPECFAIL that a named, recorded finding accounts for exactly
-/
namespace PetgraphModel

def splitWords (s : String) : List String :=
  (s.trimAscii.toString.splitOn " ").filter (· ≠ "")

/-- `a,b,c` → `[a,b,c]`; `-` → `[]` -/
def parseNats (s : String) : List Nat :=
  if s == "-" then [] else (s.splitOn ",").filterMap (·.toNat?)

def parseInts (s : String) : List Int :=
  if s == "-" then [] else (s.splitOn ",").filterMap (·.toInt?)

def showNats (l : List Nat) : String :=
  if l.isEmpty then "-" else String.intercalate "," (l.map toString)

def showInts (l : List Int) : String :=
  if l.isEmpty then "-" else String.intercalate "," (l.map toString)

def showOptNat : Option Nat → String
  | none => "none"
  | some n => toString n

def showBool (b : Bool) : String := if b then "true" else "false"

/-- verdict for the exact part of an answer -/
def cmpExact (model impl : String) : String :=
  if model == impl then "ok" else s!"MODELDIFF model=[{model}] impl=[{impl}]"

/-- split a protocol line into request words and implementation answer -/
def splitLine (line : String) : List String × String :=
  match line.trimAscii.toString.splitOn " => " with
  | [r] => (splitWords r, "")
  | r :: rest => (splitWords r, String.intercalate " => " rest)
  | [] => ([], "")

/-- generic driver loop: one verdict line per input line -/
partial def driverLoop {σ : Type} (inp out : IO.FS.Stream)
    (step : σ → List String → String → σ × String) (s : σ) : IO Unit := do
  let line ← inp.getLine
  if line.isEmpty then
    out.flush
    return ()
  let (req, impl) := splitLine line
  let (s', v) := step s req impl
  out.putStrLn v
  driverLoop inp out step s'

end PetgraphModel
