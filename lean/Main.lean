import PetgraphModel.Common
import PetgraphModel.Driver.C07
import PetgraphModel.Driver.C08
import PetgraphModel.Driver.C19
open PetgraphModel

def main (args : List String) : IO UInt32 := do
  let inp ← IO.getStdin
  let out ← IO.getStdout
  match args with
  | ["C07"] => driverLoop inp out C07.step {}; return 0
  | ["C08"] => driverLoop inp out C08.step {}; return 0
  | ["C19"] => driverLoop inp out C19.step {}; return 0
  | _ => IO.eprintln "usage: pgmodel <property id>  (protocol lines on stdin)"; return 2
