import PetgraphModel.Common
import PetgraphModel.Driver.C02
import PetgraphModel.Driver.C01
import PetgraphModel.Driver.C17
import PetgraphModel.Driver.C10
import PetgraphModel.Driver.C06
import PetgraphModel.Driver.C04
import PetgraphModel.Driver.C14
import PetgraphModel.Driver.C18
import PetgraphModel.Driver.C09
import PetgraphModel.Driver.C13
import PetgraphModel.Driver.C12
import PetgraphModel.Driver.C11
import PetgraphModel.Driver.C05
import PetgraphModel.Driver.C20
import PetgraphModel.Driver.C15
import PetgraphModel.Driver.C03
import PetgraphModel.Driver.C16
import PetgraphModel.Driver.C07
import PetgraphModel.Driver.C08
import PetgraphModel.Driver.C19
open PetgraphModel

def main (args : List String) : IO UInt32 := do
  let inp ← IO.getStdin
  let out ← IO.getStdout
  match args with
  | ["C07"] => driverLoop inp out C07.step {}; return 0
  | ["C08"] => driverLoop inp out C08.step {}; return 0
  | ["C19"] => driverLoop inp out C19.step {}; return 0
  | ["C16"] => driverLoop inp out C16.step {}; return 0
  | ["C03"] => driverLoop inp out C03.step {}; return 0
  | ["C15"] => driverLoop inp out C15.step {}; return 0
  | ["C20"] => driverLoop inp out C20.step {}; return 0
  | ["C05"] => driverLoop inp out C05.step {}; return 0
  | ["C11"] => driverLoop inp out C11.step {}; return 0
  | ["C12"] => driverLoop inp out C12.step {}; return 0
  | ["C13"] => driverLoop inp out C13.step {}; return 0
  | ["C09"] => driverLoop inp out C09.step {}; return 0
  | ["C18"] => driverLoop inp out C18.step {}; return 0
  | ["C14"] => driverLoop inp out C14.step {}; return 0
  | ["C04"] => driverLoop inp out C04.step {}; return 0
  | ["C06"] => driverLoop inp out C06.step {}; return 0
  | ["C10"] => driverLoop inp out C10.step {}; return 0
  | ["C17"] => driverLoop inp out C17.step {}; return 0
  | ["C01"] => driverLoop inp out C01.step {}; return 0
  | ["C02"] => driverLoop inp out C02.step {}; return 0
  | _ => IO.eprintln "usage: pgmodel <property id>  (protocol lines on stdin)"; return 2
