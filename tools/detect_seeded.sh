#!/bin/bash
# tools/detect_seeded.sh <seeded-dir-name>...  — apply the kept change to /repo's working tree, run the quick check of
# its property, record the outcome in seeded/<id>/detect.log, and restore /repo. /repo must be clean before.
cd /verif
for id in "$@"; do
  d=/verif/seeded/$id; P=${id%%-*}
  if [ -n "$(git -C /repo status --porcelain --untracked-files=no)" ]; then echo "$id: /repo not clean, skipping"; continue; fi
  git -C /repo apply $d/patch.diff || { echo "$id: patch does not apply"; continue; }
  s=$(date +%s)
  out=$(./check $P 2>&1 | grep -E "tier=|VIOLATION|BROKEN" | cut -c1-260)
  git -C /repo checkout -- .
  echo "== $(date -u +%FT%TZ) ./check $P with $id applied at /repo $(git -C /repo rev-parse --short HEAD) ($(( $(date +%s) - s ))s)" >> $d/detect.log
  echo "$out" >> $d/detect.log
  if echo "$out" | grep -q "VIOLATION property=$P"; then echo "$id: DETECTED :: $(echo "$out" | head -1 | cut -c1-160)"; else echo "$id: MISSED :: $out"; fi
done
python3 tools/extract.py >/dev/null 2>&1   # regenerate Extracted/* from the restored tree
