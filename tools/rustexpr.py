#!/usr/bin/env python3
"""
tools/rustexpr.py — the small Rust front end shared by the source extractors (DESIGN.md Appendix E).

  tokenize(src)                     Rust tokens (comments dropped)
  parse_file(src)     -> File       every `fn` item (params, body AST, enclosing impl header) and every
                                    `const`/`static` item with an initialiser
  parse_expr_text(s)  -> AST        one expression
  Evaluator                         evaluates the functional core of a fn body to ONE expression over its parameters:
                                    single-assignment `let`s are inlined (tuple patterns too), `if` becomes `ite`,
                                    early `return`/`panic!` become branches, Vec locals built by push/extend/append
                                    become `concat`/`list`, closures of map/flat_map over literal lists are applied,
                                    same-file helper fns can be inlined one level
  walk_inlined(fn, visit)           visits every expression of a body with the single-assignment locals inlined
  norm(e)                           canonical form: integer polynomials as sorted sums of sorted products
                                    (`+ *` commutative/associative/distributive, `pow(k)`, `<< k`), opaque n-ary
                                    `max`/`min` (cmp::max, a.max(b), the `if a > b {a} else {b}` idiom, tuple swap),
                                    `/ % - >> & | ^` as opaque nodes over canonical arguments, comparisons oriented
                                    (`<`, `<=`, `==` only; `ite` branches swapped accordingly), `usize::from(b)` =
                                    `b as usize` = `if b {1} else {0}`, `match`/`if let`/`map_or` on an Option as one
                                    `optcase` node, bound variables renamed positionally, `&`/`*`/`.clone()` dropped
  to_lean(e, names)                 the canonical form as a Lean term over Nat

Everything raises `Unrecognised` on input outside the supported subset; callers turn that into the
"unrecognised shape" outcome (fallback to the correspondence check), never into a guess.
"""
import re

class Unrecognised(Exception):
    pass

# ------------------------------------------------------------------------------------------------------------------
# tokens

_TOK = re.compile(r"""
    (?P<ws>\s+)
  | (?P<lc>//[^\n]*)
  | (?P<str>b?"(?:\\.|[^"\\])*")
  | (?P<rstr>b?r(?P<h>\#*)".*?"(?P=h))
  | (?P<char>b?'(?:\\(?:x[0-9a-fA-F]{2}|u\{[0-9a-fA-F_]+\}|.)|[^'\\])')
  | (?P<life>'[A-Za-z_][A-Za-z0-9_]*)
  | (?P<float>\d[\d_]*\.\d[\d_]*(?:[eE][+-]?\d+)?(?:f32|f64)?|\d[\d_]*(?:[eE][+-]?\d+)(?:f32|f64)?|\d[\d_]*(?:f32|f64)|\d[\d_]*\.(?![.A-Za-z_]))
  | (?P<num>0x[0-9a-fA-F_]+(?:[iu](?:8|16|32|64|128|size))?|0b[01_]+(?:[iu](?:8|16|32|64|128|size))?|0o[0-7_]+|\d[\d_]*(?:[iu](?:8|16|32|64|128|size))?)
  | (?P<id>(?:r\#)?\$?[A-Za-z_][A-Za-z0-9_]*)
  | (?P<op>\.\.=|\.\.\.|<<=|>>=|::|->|=>|==|!=|<=|>=|&&|\|\||\+=|-=|\*=|/=|%=|\^=|&=|\|=|<<|>>|\.\.|[-+*/%^!&|=<>@.,;:\#$?~(){}\[\]])
""", re.X | re.S)

def tokenize(src):
    """list of (kind, text, line); kinds: id num float str char life op"""
    out, i, line, n = [], 0, 1, len(src)
    while i < n:
        if src.startswith("/*", i):
            depth, j = 1, i + 2
            while j < n and depth:
                if src.startswith("/*", j): depth += 1; j += 2
                elif src.startswith("*/", j): depth -= 1; j += 2
                else: j += 1
            line += src.count("\n", i, j); i = j
            continue
        m = _TOK.match(src, i)
        if not m:
            raise Unrecognised("tokenizer: unexpected character %r at line %d" % (src[i], line))
        k = m.lastgroup
        if k == "h":
            k = "rstr"
        t = m.group(0)
        if k not in ("ws", "lc"):
            if k == "rstr": k = "str"
            out.append((k, t, line))
        line += t.count("\n")
        i = m.end()
    return out

def num_value(t):
    t = re.sub(r"(?:[iu](?:8|16|32|64|128|size))$", "", t).replace("_", "")
    return int(t, 0) if not t.startswith("0o") else int(t[2:], 8)

def unescape(body):
    """characters of the inside of a Rust char / string literal"""
    out, i = [], 0
    table = {"n": "\n", "t": "\t", "r": "\r", "\\": "\\", "'": "'", '"': '"', "0": "\0"}
    while i < len(body):
        c = body[i]
        if c == "\\":
            if i + 1 >= len(body):
                raise Unrecognised("dangling backslash in literal")
            e = body[i + 1]
            if e in table:
                out.append(table[e]); i += 2
            elif e == "x":
                out.append(chr(int(body[i + 2:i + 4], 16))); i += 4
            elif e == "u":
                j = body.index("}", i)
                out.append(chr(int(body[i + 3:j].replace("_", ""), 16))); i = j + 1
            elif e == "\n":
                i += 2
                while i < len(body) and body[i] in " \t\n\r": i += 1
            else:
                raise Unrecognised("escape \\%s" % e)
        else:
            out.append(c); i += 1
    return out

# ------------------------------------------------------------------------------------------------------------------
# parser  (AST = nested tuples, see the module docstring of the node kinds next to each constructor)

KEYWORDS_BLOCKLIKE = ("if", "match", "for", "while", "loop", "unsafe")
ASSIGN_OPS = ("=", "+=", "-=", "*=", "/=", "%=", "^=", "&=", "|=", "<<=", ">>=")
BIN_LEVELS = [("||",), ("&&",), ("==", "!=", "<", ">", "<=", ">="), ("|",), ("^",), ("&",), ("<<", ">>"), ("+", "-"), ("*", "/", "%")]

class Parser:
    def __init__(self, toks, pos=0):
        self.t, self.p = toks, pos

    # -- token helpers
    def peek(self, k=0):
        return self.t[self.p + k][1] if self.p + k < len(self.t) else None
    def kind(self, k=0):
        return self.t[self.p + k][0] if self.p + k < len(self.t) else None
    def line(self):
        return self.t[self.p][2] if self.p < len(self.t) else -1
    def at(self, *texts):
        return self.kind() in ("op", "id") and self.peek() in texts
    def take(self):
        tok = self.t[self.p]; self.p += 1; return tok
    def expect(self, text):
        if self.peek() != text or self.kind() not in ("op", "id"):
            raise Unrecognised("parser: expected %r, found %r at line %d" % (text, self.peek(), self.line()))
        self.p += 1
    def accept(self, text):
        if self.kind() in ("op", "id") and self.peek() == text:
            self.p += 1; return True
        return False

    def skip_balanced(self):
        """at an opening bracket: skip to just after its closing partner; returns the token slice inside"""
        o = self.peek(); c = {"(": ")", "[": "]", "{": "}"}[o]
        start = self.p + 1; depth = 0
        while self.p < len(self.t):
            k, x, _ = self.t[self.p]
            if k == "op":
                if x in "([{": depth += 1
                elif x in ")]}":
                    depth -= 1
                    if depth == 0:
                        self.p += 1
                        return self.t[start:self.p - 1]
            self.p += 1
        raise Unrecognised("parser: unbalanced %s" % o)

    def skip_attrs(self):
        while self.at("#"):
            self.p += 1
            self.accept("!")
            if not self.at("["): raise Unrecognised("parser: stray #")
            self.skip_balanced()

    def skip_generics(self):
        """at `<`: skip a balanced generic argument / parameter list"""
        depth = 0
        while self.p < len(self.t):
            k, x, _ = self.t[self.p]
            if k == "op":
                if x == "<": depth += 1
                elif x == "<<": depth += 2
                elif x == ">": depth -= 1
                elif x == ">>": depth -= 2
                elif x == ">=": depth -= 1      # `T>=` does not occur in types; defensive
                elif x in "([{":
                    self.skip_balanced(); continue
            self.p += 1
            if depth <= 0:
                return
        raise Unrecognised("parser: unbalanced <")

    def skip_type(self, stops):
        """skip a type; stop before one of `stops` at bracket depth 0; returns its token texts joined"""
        start = self.p; depth = 0
        while self.p < len(self.t):
            k, x, _ = self.t[self.p]
            if k == "op":
                if depth == 0 and x in stops: break
                if x in "([": self.skip_balanced(); continue
                if x == "{":
                    if depth == 0: break
                    self.skip_balanced(); continue
                if x == "<": depth += 1
                elif x == "<<": depth += 2
                elif x == ">": depth -= 1
                elif x == ">>": depth -= 2
                if depth < 0: break
            elif k == "id" and depth == 0 and x in stops:
                break
            self.p += 1
        return " ".join(t[1] for t in self.t[start:self.p])

    # -- patterns
    def pattern(self):
        alts = [self.pattern1()]
        while self.at("|"):
            self.p += 1
            alts.append(self.pattern1())
        return alts[0] if len(alts) == 1 else ("por", tuple(alts))

    def pattern1(self):
        if self.at("&") or self.at("&&"):
            two = self.peek() == "&&"
            self.p += 1
            self.accept("mut")
            p = ("pref", self.pattern1())
            return ("pref", p) if two else p
        if self.at("("):
            self.p += 1
            ps = self.pattern_list(")")
            return ps[0] if (len(ps) == 1 and not self._trailing) else ("ptuple", tuple(ps))
        if self.at("["):
            self.p += 1
            return ("pslice", tuple(self.pattern_list("]")))
        if self.at(".."):
            self.p += 1
            return ("prest",)
        if self.at("-") or self.kind() in ("num", "float", "str", "char"):
            lo = self.literal_pat()
            if self.at("..=") or self.at("...") or self.at(".."):
                self.p += 1
                hi = self.literal_pat() if (self.at("-") or self.kind() in ("num", "char")) else None
                return ("prange", lo, hi)
            return ("plit", lo)
        if self.kind() == "id":
            x = self.peek()
            if x == "_":
                self.p += 1; return ("pwild",)
            if x in ("ref", "mut"):
                by_ref = self.accept("ref"); mut = self.accept("mut")
                name = self.take()[1]
                sub = None
                if self.accept("@"): sub = self.pattern1()
                return ("pid", name, by_ref, mut, sub)
            if x in ("true", "false"):
                self.p += 1; return ("plit", ("bool", x == "true"))
            path = self.path_segments()
            if self.at("("):
                self.p += 1
                return ("ptstruct", path, tuple(self.pattern_list(")")))
            if self.at("{"):
                self.p += 1
                fields = []
                while not self.at("}"):
                    if self.at(".."):
                        self.p += 1; fields.append(("..", ("prest",))); continue
                    self.accept("ref"); self.accept("mut")
                    fname = self.take()[1]
                    if self.accept(":"): fields.append((fname, self.pattern()))
                    else: fields.append((fname, ("pid", fname, False, False, None)))
                    if not self.accept(","): break
                self.expect("}")
                return ("pstruct", path, tuple(fields))
            if len(path) == 1 and not path[0][:1].isupper():
                sub = None
                if self.accept("@"): sub = self.pattern1()
                return ("pid", path[0], False, False, sub)
            if self.at("..=") or self.at("..."):
                self.p += 1
                return ("prange", ("path", path), self.literal_pat())
            return ("ppath", path)
        raise Unrecognised("parser: pattern at %r line %d" % (self.peek(), self.line()))

    def literal_pat(self):
        neg = self.accept("-")
        k, x, _ = self.take()
        if k == "num": v = ("num", num_value(x))
        elif k == "float": v = ("float", x)
        elif k == "char": v = ("char", "".join(unescape(x[x.index("'") + 1:-1])))
        elif k == "str": v = ("str", x)
        elif k == "id":
            self.p -= 1
            v = ("path", self.path_segments())
        else: raise Unrecognised("parser: literal pattern %r" % x)
        return ("un", "-", v) if neg else v

    def pattern_list(self, close):
        ps = []; self._trailing = False
        while not self.at(close):
            ps.append(self.pattern())
            self._trailing = False
            if not self.accept(","): break
            self._trailing = True
        self.expect(close)
        tr = self._trailing; self._trailing = tr
        return ps

    # -- paths
    def path_segments(self):
        """ident(::ident | ::<generics>)*  — generic arguments are dropped; `<T as Trait>::f` keeps `<…>` as one segment"""
        segs = []
        if self.at("<"):
            a = self.p
            self.skip_generics()
            segs.append("<" + " ".join(t[1] for t in self.t[a + 1:self.p - 1]) + ">")
        else:
            if self.at("::"): self.p += 1
            if self.kind() != "id": raise Unrecognised("parser: path at %r line %d" % (self.peek(), self.line()))
            segs.append(self.take()[1])
        while self.at("::"):
            if self.peek(1) == "<":
                self.p += 1; self.skip_generics(); continue
            if self.kind(1) != "id": break
            self.p += 1
            segs.append(self.take()[1])
        return tuple(segs)

    # -- expressions
    def expr(self, nostruct=False):
        return self.assign(nostruct)

    def assign(self, ns):
        lhs = self.range_(ns)
        if self.kind() == "op" and self.peek() in ASSIGN_OPS:
            op = self.take()[1]
            rhs = self.assign(ns)
            return ("assign", op, lhs, rhs)
        return lhs

    def _starts_expr(self, ns):
        if self.p >= len(self.t): return False
        k, x, _ = self.t[self.p]
        if k in ("num", "float", "str", "char", "life"): return True
        if k == "id": return x not in ("as", "else")
        if x == "{": return not ns
        return x in ("(", "[", "!", "-", "*", "&", "&&", "|", "||", "<", "::")

    def range_(self, ns):
        if self.at("..") or self.at("..="):
            inc = self.take()[1] == "..="
            hi = self.binary(0, ns) if self._starts_expr(ns) else None
            return ("range", None, hi, inc)
        lo = self.binary(0, ns)
        if self.at("..") or self.at("..="):
            inc = self.take()[1] == "..="
            hi = self.binary(0, ns) if self._starts_expr(ns) else None
            return ("range", lo, hi, inc)
        return lo

    def binary(self, lvl, ns):
        if lvl == len(BIN_LEVELS):
            return self.cast(ns)
        e = self.binary(lvl + 1, ns)
        while self.kind() == "op" and self.peek() in BIN_LEVELS[lvl]:
            op = self.take()[1]
            r = self.binary(lvl + 1, ns)
            e = ("bin", op, e, r)
        return e

    def cast(self, ns):
        e = self.unary(ns)
        while self.at("as"):
            self.p += 1
            a = self.p
            while self.at("*") or self.at("&") or self.at("const") or self.at("mut"): self.p += 1
            if self.at("("): self.skip_balanced()
            else:
                self.path_segments()
                if self.at("<"): self.skip_generics()
            e = ("cast", e, "".join(t[1] for t in self.t[a:self.p]))
        return e

    def unary(self, ns):
        if self.kind() == "op":
            x = self.peek()
            if x in ("!", "-", "*"):
                self.p += 1
                return ("un", x, self.unary(ns))
            if x in ("&", "&&"):
                self.p += 1
                self.accept("mut")
                e = ("un", "&", self.unary(ns))
                return ("un", "&", e) if x == "&&" else e
        return self.postfix(self.primary(ns), ns)

    def postfix(self, e, ns):
        while True:
            if self.at("?"):
                self.p += 1; e = ("try", e)
            elif self.at("("):
                self.p += 1
                e = ("call", e, tuple(self.expr_list(")")))
            elif self.at("["):
                self.p += 1
                i = self.expr()
                self.expect("]")
                e = ("index", e, i)
            elif self.at("."):
                self.p += 1
                k, x, _ = self.take()
                if k == "float":          # tuple.0.1
                    a, b = x.split(".")
                    e = ("field", ("field", e, a), b)
                elif k == "num":
                    e = ("field", e, x)
                elif k == "id":
                    if x == "await":
                        e = ("await", e); continue
                    if self.at("::"):
                        self.p += 1; self.skip_generics()
                    if self.at("("):
                        self.p += 1
                        e = ("mcall", e, x, tuple(self.expr_list(")")))
                    else:
                        e = ("field", e, x)
                else:
                    raise Unrecognised("parser: after `.`: %r line %d" % (x, self.line()))
            else:
                return e

    def expr_list(self, close):
        es = []
        while not self.at(close):
            es.append(self.expr())
            if not self.accept(","): break
        self.expect(close)
        return es

    def primary(self, ns):
        k, x = self.kind(), self.peek()
        if k == "num":
            self.p += 1; return ("num", num_value(x))
        if k == "float":
            self.p += 1; return ("float", x)
        if k == "str":
            self.p += 1; return ("str", x)
        if k == "char":
            self.p += 1; return ("char", "".join(unescape(x[x.index("'") + 1:-1])))
        if k == "life":      # labelled loop
            self.p += 1; self.expect(":")
            return self.primary(ns)
        if k == "op":
            if x == "(":
                self.p += 1
                es = []; trailing = False
                while not self.at(")"):
                    es.append(self.expr()); trailing = False
                    if not self.accept(","): break
                    trailing = True
                self.expect(")")
                if len(es) == 1 and not trailing: return es[0]
                return ("tuple", tuple(es))
            if x == "[":
                self.p += 1
                if self.at("]"):
                    self.p += 1; return ("array", ())
                first = self.expr()
                if self.accept(";"):
                    n = self.expr(); self.expect("]")
                    return ("repeat", first, n)
                es = [first]
                while self.accept(","):
                    if self.at("]"): break
                    es.append(self.expr())
                self.expect("]")
                return ("array", tuple(es))
            if x == "{":
                return self.block()
            if x in ("|", "||"):
                return self.closure()
            if x in ("<", "::"):
                return ("path", self.path_segments())
        if k == "id":
            if x in ("true", "false"):
                self.p += 1; return ("bool", x == "true")
            if x == "move" and self.peek(1) in ("|", "||"):
                self.p += 1; return self.closure()
            if x == "if": return self.if_()
            if x == "match":
                self.p += 1
                scrut = self.expr(nostruct=True)
                self.expect("{")
                arms = []
                while not self.at("}"):
                    self.skip_attrs()
                    self.accept("|")
                    pat = self.pattern()
                    guard = None
                    if self.accept("if"): guard = self.expr()
                    self.expect("=>")
                    body = self.stmt_like_expr()
                    arms.append((pat, guard, body))
                    if not self.accept(",") and not self.at("}"):
                        if body[0] not in ("block", "if", "match", "for", "while", "loop"):
                            raise Unrecognised("parser: match arm separator line %d" % self.line())
                self.expect("}")
                return ("match", scrut, tuple(arms))
            if x == "for":
                self.p += 1
                pat = self.pattern(); self.expect("in")
                it = self.expr(nostruct=True)
                return ("for", pat, it, self.block())
            if x == "while":
                self.p += 1
                return ("while", self.cond(), self.block())
            if x == "loop":
                self.p += 1
                return ("loop", self.block())
            if x == "unsafe" and self.peek(1) == "{":
                self.p += 1
                return self.block()
            if x == "return":
                self.p += 1
                return ("return", self.expr() if self._starts_expr(False) else None)
            if x == "break":
                self.p += 1
                if self.kind() == "life": self.p += 1
                return ("break", self.expr(ns) if self._starts_expr(ns) else None)
            if x == "continue":
                self.p += 1
                if self.kind() == "life": self.p += 1
                return ("continue",)
            if x == "let":      # only inside conditions (`if let` chains) — handled by cond()
                raise Unrecognised("parser: `let` in expression position line %d" % self.line())
            path = self.path_segments()
            if self.at("!") and self.peek(1) in ("(", "[", "{") and len(path) >= 1:
                self.p += 1
                return self.macro(path)
            if self.at("{") and not ns and (path[-1][:1].isupper()) and self._looks_like_struct_lit():
                return self.struct_lit(path)
            return ("path", path)
        raise Unrecognised("parser: unexpected %r at line %d" % (x, self.line()))

    def stmt_like_expr(self):
        """expression at the start of a statement / match arm: a block-like expression ends there (it is not continued by a
        binary operator or a call), unless a method call or `?` follows"""
        blocklike = (self.kind() == "id" and (self.peek() in KEYWORDS_BLOCKLIKE) and not (self.peek() == "unsafe" and self.peek(1) != "{")) \
            or self.at("{") or (self.kind() == "life" and self.peek(1) == ":")
        if not blocklike:
            return self.expr()
        e = self.primary(False)
        if self.at(".") or self.at("?"):
            e = self.postfix(e, False)
            # continue as an ordinary expression (rare: `match x {..}.foo() + 1`)
            while self.kind() == "op" and any(self.peek() in lv for lv in BIN_LEVELS):
                op = self.take()[1]
                e = ("bin", op, e, self.binary(len(BIN_LEVELS) - 1, False))
        return e

    def _looks_like_struct_lit(self):
        # `Path {` followed by `}` | `ident :` | `ident ,` | `ident }` | `..`
        a, b, c = self.peek(1), self.kind(1), self.peek(2)
        if a == "}" or a == "..": return True
        return b in ("id", "num") and c in (":", ",", "}")

    def struct_lit(self, path):
        self.expect("{")
        fields, base = [], None
        while not self.at("}"):
            self.skip_attrs()
            if self.accept(".."):
                base = self.expr(); break
            name = self.take()[1]
            if self.accept(":"): fields.append((name, self.expr()))
            else: fields.append((name, ("path", (name,))))
            if not self.accept(","): break
        self.expect("}")
        return ("struct", path, tuple(fields), base)

    def closure(self):
        params = []
        if self.accept("||"):
            pass
        else:
            self.expect("|")
            while not self.at("|"):
                p = self.pattern1()
                if self.accept(":"): self.skip_type(("|", ","))
                params.append(p)
                if not self.accept(","): break
            self.expect("|")
        if self.accept("->"):
            self.skip_type(("{",))
            body = self.block()
        else:
            body = self.expr()
        return ("closure", tuple(params), body)

    def macro(self, path):
        name = path[-1]
        close = {"(": ")", "[": "]", "{": "}"}[self.peek()]
        save = self.p
        inner = self.skip_balanced()
        sub = Parser(list(inner))
        try:
            if not inner:
                return ("veclist", ()) if name == "vec" else ("macro", name, ())
            first = sub.expr()
            if sub.at(";") and name == "vec":
                sub.p += 1
                n = sub.expr()
                if sub.p != len(inner): raise Unrecognised("vec! tail")
                return ("vecrep", first, n)
            es = [first]
            while sub.accept(","):
                if sub.p >= len(inner): break
                es.append(sub.expr())
            if sub.p != len(inner): raise Unrecognised("macro tail")
            if name == "vec": return ("veclist", tuple(es))
            return ("macro", name, tuple(es))
        except (Unrecognised, IndexError):
            return ("macro_raw", name, " ".join(t[1] for t in inner))

    def cond(self):
        """condition of if / while: `let PAT = EXPR` allowed (also in && chains)"""
        def one():
            if self.accept("let"):
                pat = self.pattern(); self.expect("=")
                # the scrutinee binds tighter than && in let chains
                e = self.binary(2, True)
                return ("letcond", pat, e)
            return None
        c = one()
        if c is None:
            c = self.expr(nostruct=True)
            return c
        while self.at("&&"):
            self.p += 1
            r = one() or self.binary(2, True)
            c = ("bin", "&&", c, r)
        return c

    def if_(self):
        self.expect("if")
        c = self.cond()
        then = self.block()
        els = None
        if self.accept("else"):
            els = self.if_() if self.at("if") else self.block()
        return ("if", c, then, els)

    def block(self):
        self.expect("{")
        stmts, tail = [], None
        while not self.at("}"):
            self.skip_attrs()
            if self.at(";"):
                self.p += 1; continue
            if self.at("let"):
                self.p += 1
                pat = self.pattern()
                ty = None
                if self.accept(":"): ty = self.skip_type(("=", ";"))
                init = els = None
                if self.accept("="):
                    init = self.expr()
                    if self.accept("else"): els = self.block()
                self.expect(";")
                stmts.append(("let", pat, ty, init, els))
                continue
            if self.at("const") or self.at("static"):
                self.p += 1
                self.accept("mut")
                name = self.take()[1]
                self.expect(":"); self.skip_type(("=", ";"))
                self.expect("=")
                init = self.expr(); self.expect(";")
                stmts.append(("let", ("pid", name, False, False, None), None, init, None))
                continue
            if self.at("use") or self.at("type"):
                while not self.at(";"):
                    if self.at("{"): self.skip_balanced()
                    else: self.p += 1
                self.p += 1
                continue
            if self.at("fn") or ((self.at("pub") or self.at("extern") or self.at("struct") or self.at("enum") or self.at("impl")
                                  or self.at("trait") or self.at("mod")) ) or (self.at("macro_rules") and self.peek(1) == "!"):
                # nested item: skip it (items do not capture locals)
                while not (self.at("{") or self.at(";")):
                    if self.at("(") or self.at("["): self.skip_balanced()
                    elif self.at("<"): self.skip_generics()
                    else: self.p += 1
                if self.at("{"): self.skip_balanced()
                else: self.p += 1
                stmts.append(("item",))
                continue
            start_blocklike = (self.kind() == "id" and self.peek() in KEYWORDS_BLOCKLIKE) or self.at("{") or self.kind() == "life"
            e = self.stmt_like_expr()
            if start_blocklike and e[0] in ("if", "match", "for", "while", "loop", "block") and not self.at(";"):
                if self.at("}"):
                    tail = e; break
                stmts.append(("semi", e)); continue
            if self.accept(";"):
                stmts.append(("semi", e))
            else:
                if not self.at("}"):
                    if e[0] in ("macro", "macro_raw") :
                        stmts.append(("semi", e)); continue
                    raise Unrecognised("parser: expected ; or } after expression at line %d (found %r)" % (self.line(), self.peek()))
                tail = e
        self.expect("}")
        return ("block", tuple(stmts), tail)


def parse_expr_text(s):
    p = Parser(tokenize(s))
    e = p.expr()
    if p.p != len(p.t):
        raise Unrecognised("trailing tokens in %r" % s)
    return e

# ------------------------------------------------------------------------------------------------------------------
# file level: fn items, consts, impl headers

class FnItem:
    __slots__ = ("name", "params", "ret", "body", "impl", "line", "error", "sig")
    def __repr__(self): return "<fn %s line %d>" % (self.name, self.line)
    def param_names(self):
        out = []
        for pat, ty in self.params:
            if pat[0] == "pid": out.append(pat[1])
            elif pat[0] == "pself": out.append("self")
            else: out.append(None)
        return out

class File:
    def __init__(self):
        self.fns, self.consts, self.impls = [], {}, []
    def fn(self, name, impl_contains=None):
        c = [f for f in self.fns if f.name == name and (impl_contains is None or (f.impl and impl_contains in f.impl))]
        return c
    def one_fn(self, name, impl_contains=None):
        c = self.fn(name, impl_contains)
        if len(c) != 1:
            raise LookupError("%d functions named %s%s" % (len(c), name, (" in impl …%s…" % impl_contains) if impl_contains else ""))
        return c[0]

def parse_file(src):
    toks = tokenize(src)
    P = Parser(toks)
    F = File()
    stack = []      # (kind, header_text) per open brace
    def cur_impl():
        for k, h in reversed(stack):
            if k == "impl": return h
        return None
    while P.p < len(toks):
        k, x, ln = toks[P.p]
        if k == "op" and x == "#" and P.peek(1) in ("[", "!"):
            P.skip_attrs(); continue
        if k == "id" and x in ("impl", "trait", "mod") and (P.p == 0 or toks[P.p - 1][1] not in ("::", ".", "dyn", "&", "(", "<", ",", "->", ":", "+", "=")):
            a = P.p
            # header up to `{` or `;`
            P.p += 1
            while P.p < len(toks) and not (P.at("{") or P.at(";")):
                if P.at("(") or P.at("["): P.skip_balanced()
                elif P.at("<"): P.skip_generics()
                else: P.p += 1
            if P.at("{"):
                hdr = " ".join(t[1] for t in toks[a:P.p])
                stack.append((x if x != "trait" else "impl", hdr))
                if x != "mod": F.impls.append(hdr)
                P.p += 1
            else:
                P.p += 1
            continue
        if k == "id" and x in ("const", "static") and P.kind(1) == "id" and P.peek(1) not in ("fn", "unsafe", "extern"):
            a = P.p
            try:
                P.p += 1
                P.accept("mut")
                name = P.take()[1]
                P.expect(":"); P.skip_type(("=", ";"))
                if P.accept("="):
                    e = P.expr(); P.expect(";")
                    F.consts.setdefault(name, []).append((e, cur_impl(), ln))
                else:
                    P.expect(";")
            except (Unrecognised, IndexError):
                P.p = a + 1
            continue
        if k == "id" and x == "fn" and P.kind(1) == "id":
            f = FnItem(); f.line = ln; f.impl = cur_impl(); f.error = None; f.body = None; f.params = []; f.ret = None
            a = P.p
            P.p += 1
            f.name = P.take()[1]
            try:
                if P.at("<"): P.skip_generics()
                P.expect("(")
                while not P.at(")"):
                    P.skip_attrs()
                    # self forms
                    save = P.p
                    if P.at("&"):
                        P.p += 1
                        if P.kind() == "life": P.p += 1
                        P.accept("mut")
                    else:
                        P.accept("mut")
                    if P.at("self"):
                        P.p += 1
                        if P.accept(":"): P.skip_type((",", ")"))
                        f.params.append((("pself",), None))
                    else:
                        P.p = save
                        pat = P.pattern1()
                        P.expect(":")
                        ty = P.skip_type((",", ")"))
                        f.params.append((pat, ty))
                    if not P.accept(","): break
                P.expect(")")
                if P.accept("->"):
                    f.ret = P.skip_type(("where", ";"))
                if P.at("where"):
                    while P.p < len(toks) and not (P.at("{") or P.at(";")):
                        if P.at("(") or P.at("["): P.skip_balanced()
                        elif P.at("<"): P.skip_generics()
                        else: P.p += 1
                f.sig = " ".join(t[1] for t in toks[a:P.p])
                if P.at(";"):
                    P.p += 1
                    continue                 # declaration only
                body_start = P.p
                try:
                    f.body = P.block()
                except (Unrecognised, IndexError) as e:
                    f.error = str(e)
                    P.p = body_start
                    P.skip_balanced()
                F.fns.append(f)
            except (Unrecognised, IndexError) as e:
                # a `fn` token that is not an item we understand (macro_rules bodies, fn pointer types …)
                P.p = a + 1
            continue
        if k == "op" and x == "{":
            stack.append(("other", "")); P.p += 1; continue
        if k == "op" and x == "}":
            if stack: stack.pop()
            P.p += 1; continue
        P.p += 1
    return F

# ------------------------------------------------------------------------------------------------------------------
# generic tree utilities (layout-driven: identifiers that happen to spell a node tag are never mistaken for nodes)

# per node kind, what each position holds: e expr, o optional expr, E tuple of exprs, p pattern, q optional pattern,
# P tuple of patterns, - anything else
LAYOUT = {
    "num": "--", "float": "--", "str": "--", "char": "--", "bool": "--", "path": "--", "macro_raw": "---", "panic": "-",
    "continue": "-", "item": "-", "pwild": "-", "prest": "-", "ppath": "--", "pself": "-",
    "call": "-eE", "mcall": "-e-E", "field": "-e-", "index": "-ee", "un": "--e", "bin": "--ee", "cast": "-e-", "try": "-e",
    "tuple": "-E", "array": "-E", "repeat": "-ee", "macro": "--E", "vecrep": "-ee", "veclist": "-E", "range": "-oo-",
    "closure": "-Pe", "return": "-o", "break": "-o", "assign": "--ee", "await": "-e", "letcond": "-pe",
    "if": "-eeo", "for": "-pee", "while": "-ee", "loop": "-e", "let": "-p-oo", "semi": "-e",
    "ite": "-eee", "max": "-E", "min": "-E", "div": "-ee", "mod": "-ee", "sub": "-ee", "shr": "-ee", "shl": "-ee",
    "band": "-E", "bor": "-E", "bxor": "-E", "and": "-E", "or": "-E", "not": "-e", "b2n": "-e", "cmp": "--ee",
    "list": "-E", "concat": "-E", "optcase": "-epee",
    "pid": "----q", "ptuple": "-P", "pref": "-p", "ptstruct": "--P", "por": "-P", "pslice": "-P", "plit": "-e", "prange": "-oo",
}

def _is_node(x):
    return isinstance(x, tuple) and len(x) > 0 and isinstance(x[0], str) and (x[0] in LAYOUT or x[0] in ("struct", "match", "block", "poly", "pstruct"))

def map_kids(e, f):
    """rebuild node `e` with `f` applied to every direct child node (expressions and patterns)"""
    k = e[0]
    lay = LAYOUT.get(k)
    if lay is not None:
        out = [k]
        for i in range(1, len(e)):
            c = lay[i] if i < len(lay) else "-"
            x = e[i]
            if c in "ep": out.append(f(x))
            elif c in "oq": out.append(f(x) if x is not None else None)
            elif c in "EP": out.append(tuple(f(y) for y in x))
            else: out.append(x)
        return tuple(out)
    if k == "struct":
        return ("struct", e[1], tuple((n, f(v)) for n, v in e[2]), f(e[3]) if e[3] is not None else None)
    if k == "pstruct":
        return ("pstruct", e[1], tuple((n, f(v)) for n, v in e[2]))
    if k == "match":
        return ("match", f(e[1]), tuple((f(p), f(g) if g is not None else None, f(b)) for p, g, b in e[2]))
    if k == "block":
        return ("block", tuple(f(s) for s in e[1]), f(e[2]) if e[2] is not None else None)
    if k == "poly":
        return ("poly", tuple((tuple(f(a) for a in m), c) for m, c in e[1]))
    raise Unrecognised("unknown node kind %r" % (k,))

def kids(e):
    out = []
    def g(x):
        out.append(x); return x
    map_kids(e, g)
    return out

def walk(e):
    """pre-order over all nodes (expressions, statements and patterns)"""
    stack = [e]
    while stack:
        x = stack.pop()
        yield x
        stack.extend(reversed(kids(x)))

def find(e, pred):
    return [x for x in walk(e) if pred(x)]

def subst(e, mapping):
    """replace whole sub-trees (keys of `mapping` are ASTs)"""
    if e in mapping:
        return mapping[e]
    return map_kids(e, lambda x: subst(x, mapping))

def is_path(e, *names):
    return isinstance(e, tuple) and e and e[0] == "path" and (not names or (len(e[1]) == 1 and e[1][0] in names))

def path_name(e):
    return e[1][0] if (isinstance(e, tuple) and e and e[0] == "path" and len(e[1]) == 1) else None

def pat_binders(p):
    out = []
    for x in walk(p):
        if x[0] == "pid": out.append(x[1])
    return out

# ------------------------------------------------------------------------------------------------------------------
# evaluation of the functional core

NOOP_MACROS = ("debug_assert", "debug_assert_eq", "debug_assert_ne", "assert", "assert_eq", "assert_ne")
PANIC_MACROS = ("panic", "unreachable", "unimplemented", "todo")
ITER_IDENTITY = ("iter", "into_iter", "iter_mut", "cloned", "copied", "collect", "to_vec", "clone", "to_owned", "by_ref", "as_slice", "as_mut_slice")
PANIC = ("panic",)

class Evaluator:
    """evaluate a fn body (block AST) to one expression.  `helpers`: {name: FnItem} of same-file fns that may be
    inlined (one level); `opaque_calls`: names never inlined."""
    def __init__(self, helpers=None, inline_depth=1):
        self.helpers = helpers or {}
        self.inline_depth = inline_depth

    def run_fn(self, f, args=None):
        env = {}
        names = f.param_names()
        for i, n in enumerate(names):
            if n is None: raise Unrecognised("parameter pattern of %s" % f.name)
            env[n] = args[i] if args is not None else ("path", (n,))
        if f.body is None: raise Unrecognised("body of %s does not parse: %s" % (f.name, f.error))
        kind, v = self.block(f.body, env, set())
        return v

    # returns ("val", expr) | ("div", expr)   (div = the block never falls through; expr is what the fn returns)
    def block(self, b, env, muts):
        env = dict(env)
        r = self.stmts(list(b[1]), b[2], env, muts)
        return r

    def stmts(self, stmts, tail, env, muts):
        i = 0
        while i < len(stmts):
            s = stmts[i]; i += 1
            if s[0] == "item": continue
            if s[0] == "let":
                _, pat, ty, init, els = s
                if els is not None: raise Unrecognised("let-else")
                if init is None:
                    for n in pat_binders(pat): env[n] = ("path", ("<uninit>",))
                    continue
                # (`let x = if c { a } else { panic!() };` evaluates as an expression with PANIC leaves)
                v = self.expr(init, env, muts)
                self.bind(pat, v, env)
                continue
            e = s[1]
            r = self.stmt_expr(e, env, muts, stmts[i:], tail)
            if r is not None:
                return r
        if tail is None:
            return ("val", ("tuple", ()))
        if tail[0] in ("if", "match", "block", "return") or (tail[0] in ("macro", "macro_raw") and tail[1] in PANIC_MACROS):
            r = self.stmt_expr(tail, env, muts, [], None, as_tail=True)
            if r is not None: return r
            raise Unrecognised("tail")
        return ("val", self.expr(tail, env, muts))

    def _may_diverge(self, e):
        return any(x[0] == "return" or (x[0] in ("macro", "macro_raw") and x[1] in PANIC_MACROS) for x in walk(e))

    def stmt_expr(self, e, env, muts, rest, tail, as_tail=False):
        """a statement-position expression; returns a final ("val"/"div", v) when the remaining statements were
        consumed here (branching), or None to continue"""
        k = e[0]
        if k == "return":
            return ("div", self.expr(e[1], env, muts) if e[1] is not None else ("tuple", ()))
        if k in ("macro", "macro_raw"):
            if e[1] in PANIC_MACROS: return ("div", PANIC)
            if e[1] in NOOP_MACROS: return None if not as_tail else ("val", ("tuple", ()))
            raise Unrecognised("macro statement %s!" % e[1])
        if k == "if":
            _, c, then, els = e
            if c[0] == "letcond" or any(x[0] == "letcond" for x in walk(c)):
                if as_tail: return ("val", self.expr(e, env, muts))
                raise Unrecognised("if-let statement")
            cv = self.expr(c, env, muts)
            env_t, env_e = dict(env), dict(env)
            rt = self.stmts(list(then[1]), then[2], env_t, muts) if not as_tail else self.block(then, env_t, muts)
            if els is None:
                re_ = ("val", ("tuple", ()))
            elif els[0] == "if":
                re_ = self.stmt_expr(els, env_e, muts, [], None, as_tail=True) if as_tail else self._branch(els, env_e, muts)
            else:
                re_ = self.stmts(list(els[1]), els[2], env_e, muts)
            if as_tail:
                kind = "div" if (rt[0] == "div" and re_[0] == "div") else "val"
                return (kind, ("ite", cv, rt[1], re_[1]))
            # statement position: a branch that diverges contributes its value, the other continues with `rest`
            def cont(envx):
                return self.stmts(list(rest), tail, envx, muts)
            if rt[0] == "div" and re_[0] == "div":
                return ("div", ("ite", cv, rt[1], re_[1]))
            if rt[0] == "div":
                r2 = cont(env_e)
                return (r2[0], ("ite", cv, rt[1], r2[1]))
            if re_[0] == "div":
                r2 = cont(env_t)
                return (r2[0], ("ite", cv, r2[1], re_[1]))
            # neither diverges: merge the environments
            for n in set(env_t) | set(env_e):
                a, b = env_t.get(n), env_e.get(n)
                if a is None or b is None: continue
                if a != b:
                    if n not in env: continue
                    env[n] = ("ite", cv, a, b)
                else:
                    env[n] = a
            return None
        if k == "block":
            r = self.stmts(list(e[1]), e[2], env, muts)     # shares env: inner lets leak, harmless for single assignment
            if r[0] == "div": return r
            if as_tail: return r
            return None
        if k == "match":
            if as_tail: return ("val", self.expr(e, env, muts))
            raise Unrecognised("match statement")
        if k == "assign":
            _, op, lhs, rhs = e
            n = path_name(lhs)
            if n is None or n not in env: raise Unrecognised("assignment to a place")
            rv = self.expr(rhs, env, muts)
            env[n] = rv if op == "=" else ("bin", op[:-1], env[n], rv)
            return None
        if k == "mcall":
            _, recv, name, args = e
            n = path_name(recv)
            if n is not None and n in env:
                cur = env[n]
                if name == "push" and len(args) == 1:
                    env[n] = ("concat", (cur, ("list", (self.expr(args[0], env, muts),)))); return None
                if name in ("extend", "append", "extend_from_slice") and len(args) == 1:
                    env[n] = ("concat", (cur, self.expr(args[0], env, muts))); return None
                if name in ("reserve", "shrink_to_fit", "reserve_exact"):
                    return None
                if name == "resize" and len(args) == 2:
                    env[n] = ("mcall", cur, "resize", (self.expr(args[0], env, muts), self.expr(args[1], env, muts))); return None
            raise Unrecognised("statement %s.%s(..)" % (n, name))
        if k in ("for", "while", "loop"):
            raise Unrecognised("loop")
        if k == "call":
            raise Unrecognised("call statement")
        raise Unrecognised("statement kind %s" % k)

    def _branch(self, ifexpr, env, muts):
        r = self.stmt_expr(ifexpr, env, muts, [], None, as_tail=False)
        if r is None: return ("val", ("tuple", ()))
        return r

    def bind(self, pat, v, env):
        k = pat[0]
        if k == "pwild": return
        if k == "pid":
            env[pat[1]] = v
            if pat[4] is not None: self.bind(pat[4], v, env)
            return
        if k == "pref":
            return self.bind(pat[1], v, env)
        if k == "ptuple":
            ps = pat[1]
            if v[0] == "ite":
                # push the destructuring through the conditional
                a = {}; b = {}
                self.bind(pat, v[2], a); self.bind(pat, v[3], b)
                for n in a: env[n] = ("ite", v[1], a[n], b[n])
                return
            if v[0] == "tuple" and len(v[1]) == len(ps):
                for p, x in zip(ps, v[1]): self.bind(p, x, env)
                return
            for i, p in enumerate(ps):
                self.bind(p, ("field", v, str(i)), env)
            return
        raise Unrecognised("pattern %s in let" % k)

    def expr(self, e, env, muts):
        k = e[0]
        if k == "path":
            if len(e[1]) == 1 and e[1][0] in env: return env[e[1][0]]
            return e
        if k in ("num", "float", "str", "char", "bool"): return e
        if k == "block":
            r = self.block(e, env, muts)
            return r[1]
        if k == "if":
            _, c, then, els = e
            if any(x[0] == "letcond" for x in walk(c)):
                if c[0] != "letcond": raise Unrecognised("let chain")
                scrut = self.expr(c[2], env, muts)
                env2 = dict(env)
                for n in pat_binders(c[1]): env2[n] = ("path", (n,))
                a = self.block(then, env2, muts)[1]
                b = self.expr(els, env, muts) if els is not None else ("tuple", ())
                return ("match", scrut, ((c[1], None, a), (("pwild",), None, b)))
            cv = self.expr(c, env, muts)
            a = self.block(then, env, muts)[1]
            b = self.expr(els, env, muts) if els is not None else ("tuple", ())
            return ("ite", cv, a, b)
        if k == "match":
            scrut = self.expr(e[1], env, muts)
            arms = []
            for pat, guard, body in e[2]:
                env2 = dict(env)
                for n in pat_binders(pat): env2[n] = ("path", (n,))
                g = self.expr(guard, env2, muts) if guard is not None else None
                arms.append((pat, g, self.expr(body, env2, muts)))
            return ("match", scrut, tuple(arms))
        if k == "closure":
            env2 = dict(env)
            for p in e[1]:
                for n in pat_binders(p): env2[n] = ("path", (n,))
            return ("closure", e[1], self.expr(e[2], env2, muts))
        if k == "return":
            raise Unrecognised("return inside an expression")
        if k in ("macro", "macro_raw"):
            if e[1] in PANIC_MACROS: return PANIC
            if k == "macro": return ("macro", e[1], tuple(self.expr(x, env, muts) for x in e[2]))
            return e
        if k == "veclist":
            return ("list", tuple(self.expr(x, env, muts) for x in e[1]))
        if k == "vecrep":
            return ("vecrep", self.expr(e[1], env, muts), self.expr(e[2], env, muts))
        if k == "array":
            return ("list", tuple(self.expr(x, env, muts) for x in e[1]))
        if k == "call":
            fn = e[1]
            args = tuple(self.expr(x, env, muts) for x in e[2])
            if fn[0] == "path":
                p = fn[1]
                if p in (("Vec", "new"), ("Vec", "with_capacity"), ("Vec", "default")): return ("list", ())
                if len(p) == 1 and p[0] in self.helpers and self.inline_depth > 0:
                    h = self.helpers[p[0]]
                    try:
                        sub = Evaluator(self.helpers, self.inline_depth - 1)
                        return sub.run_fn(h, list(args))
                    except Unrecognised:
                        pass
                return ("call", fn, args)
            return ("call", self.expr(fn, env, muts), args)
        if k == "mcall":
            recv = self.expr(e[1], env, muts)
            name = e[2]
            args = tuple(self.expr(x, env, muts) for x in e[3])
            return self.method(recv, name, args)
        if k in ("for", "while", "loop"):
            raise Unrecognised("loop in expression")
        if k == "assign":
            raise Unrecognised("assignment in expression")
        if k == "let":
            raise Unrecognised("let")
        if k in ("struct", "tuple", "index", "field", "un", "bin", "cast", "try", "range", "repeat", "await", "list", "concat",
                 "ite", "max", "min"):
            return map_kids(e, lambda x: self.expr(x, env, muts))
        raise Unrecognised("evaluate: node %s" % k)

    def method(self, recv, name, args):
        base = recv
        while base[0] == "un" and base[1] in ("&", "*"): base = base[2]
        if base == PANIC: return PANIC
        if base[0] == "ite" and any(x[0] in ("list", "concat") or x == PANIC for x in (base[2], base[3])):
            # a method of a conditional value: apply it in both branches
            return ("ite", base[1], self.method(base[2], name, args), self.method(base[3], name, args))
        if base[0] in ("list", "concat"):
            if name in ITER_IDENTITY and not args: return base
            if base[0] == "list" and name in ("map", "flat_map") and len(args) == 1 and args[0][0] == "closure" and len(args[0][1]) == 1:
                pat, body = args[0][1][0], args[0][2]
                outs = []
                for el in base[1]:
                    m = {}
                    self._bind_closure(pat, el, m)
                    outs.append(subst(body, {("path", (n,)): v for n, v in m.items()}))
                if name == "map": return ("list", tuple(outs))
                return ("concat", tuple(outs))
            if base[0] == "list" and name == "len" and not args:
                return ("num", len(base[1]))
        return ("mcall", recv, name, args)

    def _bind_closure(self, pat, v, m):
        k = pat[0]
        if k == "pwild": return
        if k == "pid": m[pat[1]] = v; return
        if k == "pref": return self._bind_closure(pat[1], v, m)
        if k == "ptuple" and v[0] == "tuple" and len(v[1]) == len(pat[1]):
            for p, x in zip(pat[1], v[1]): self._bind_closure(p, x, m)
            return
        raise Unrecognised("closure parameter pattern")


def walk_inlined(body, visit, env=None, helpers=None):
    """call visit(expr_with_locals_inlined, guards, loops) for every statement-level expression of a block, keeping an
    environment of the immutable `let` bindings in scope (tuple lets of tuple values are split).  `guards` is the list of
    (condition, polarity) of the enclosing `if`s, `loops` the list of (pattern, iterator) of the enclosing `for`s.
    Conditions and iterators are inlined too.  Expressions are visited once, at the outermost statement they belong to."""
    ev = Evaluator(helpers or {}, 1)
    def inl(e, env):
        try:
            return ev.expr(e, env, set())
        except Unrecognised:
            return subst(e, {("path", (n,)): v for n, v in env.items()})
    def shadow(env, names):
        for n in names:
            env[n] = ("path", (n,))
    def blk(b, env, guards, loops):
        env = dict(env)
        for s in b[1]:
            if s[0] == "item": continue
            if s[0] == "let":
                _, pat, ty, init, els = s
                if init is None:
                    shadow(env, pat_binders(pat)); continue
                ex(init, env, guards, loops, role="let")
                mutable = any(x[0] == "pid" and x[3] for x in walk(pat))
                v = inl(init, env)
                if mutable or init[0] in ("for", "while", "loop"):
                    shadow(env, pat_binders(pat))
                else:
                    try:
                        ev.bind(pat, v, env)
                    except Unrecognised:
                        shadow(env, pat_binders(pat))
                continue
            ex(s[1], env, guards, loops, role="stmt")
        if b[2] is not None:
            ex(b[2], env, guards, loops, role="tail")
    def ex(e, env, guards, loops, role):
        k = e[0]
        if k == "block":
            blk(e, env, guards, loops); return
        if k == "if":
            _, c, then, els = e
            env2 = dict(env)
            if any(x[0] == "letcond" for x in walk(c)):
                for x in walk(c):
                    if x[0] == "letcond":
                        visit(inl(x[2], env), guards, loops, "cond")
                        shadow(env2, pat_binders(x[1]))
                cv = inl(c, env)
            else:
                cv = inl(c, env)
                visit(cv, guards, loops, "cond")
            blk(then, env2, guards + [(cv, True)], loops)
            if els is not None:
                ex(els, env, guards + [(cv, False)], loops, role)
            return
        if k == "for":
            _, pat, it, body = e
            itv = inl(it, env)
            visit(itv, guards, loops, "iter")
            env2 = dict(env); shadow(env2, pat_binders(pat))
            blk(body, env2, guards, loops + [(pat, itv)])
            return
        if k == "while":
            c = e[1]
            env2 = dict(env)
            for x in walk(c):
                if x[0] == "letcond": shadow(env2, pat_binders(x[1]))
            cv = inl(c, env2)
            visit(cv, guards, loops, "cond")
            blk(e[2], env2, guards, loops + [(("pwild",), ("while", cv))])
            return
        if k == "loop":
            blk(e[1], env, guards, loops + [(("pwild",), ("loop",))])
            return
        if k == "match":
            sv = inl(e[1], env)
            visit(sv, guards, loops, "scrutinee")
            for pat, guard, body in e[2]:
                env2 = dict(env); shadow(env2, pat_binders(pat))
                g2 = guards + [(("match", sv, pat), True)]
                if body[0] in ("block", "if", "match", "for", "while", "loop"):
                    ex(body, env2, g2, loops, role)
                else:
                    visit(inl(body, env2), g2, loops, role)
            return
        visit(inl(e, env), guards, loops, role)
    blk(body, dict(env or {}), [], [])

def collect_inlined(body, pred, helpers=None):
    """unique (node, guards, loops, role) for every sub-expression satisfying `pred`, locals inlined.  An immutable
    local is visited where it is defined and again wherever it is used: occurrences that are equal as trees under the same
    guards and loops are reported once."""
    seen, out = set(), []
    def visit(e, guards, loops, role):
        for c in find(e, pred):
            k = (c, tuple(guards), tuple(loops))
            if k in seen: continue
            seen.add(k)
            out.append((c, guards, loops, role))
    walk_inlined(body, visit, helpers=helpers)
    return out

# ------------------------------------------------------------------------------------------------------------------
# canonical form

INT_CAST = re.compile(r"^(?:[iu](?:8|16|32|64|128|size))$")
MAXMIN_PATHS = {("cmp", "max"): "max", ("cmp", "min"): "min", ("core", "cmp", "max"): "max", ("core", "cmp", "min"): "min",
                ("std", "cmp", "max"): "max", ("std", "cmp", "min"): "min", ("max",): "max", ("min",): "min",
                ("Ord", "max"): "max", ("Ord", "min"): "min", ("usize", "max"): "max", ("usize", "min"): "min"}
UFCS_METHODS = {"node_bound", "node_count", "edge_bound", "edge_count", "to_index", "from_index", "index", "is_directed", "len"}

def key(e):
    """total order on canonical nodes (variables before compound nodes before numbers)"""
    return _key(e)

def _key(e):
    if isinstance(e, tuple):
        if e and e[0] == "num": return (9, e[1])
        if e and e[0] == "path": return (0, e[1])
        return (5, tuple(_key(x) for x in e))
    if e is None: return (1, "")
    if isinstance(e, bool): return (2, int(e))
    if isinstance(e, int): return (3, e)
    if isinstance(e, dict): return (4, tuple(sorted((_key(k), v) for k, v in e.items())))
    return (1, str(e))

def poly_const(c):
    return ("poly", ((( ), c),)) if c else ("poly", ())

def as_poly(e):
    """canonical node -> {monomial: coeff}; monomial = sorted tuple of atoms (with repetition)"""
    if e[0] == "poly": return dict(e[1])
    if e[0] == "num": return {(): e[1]} if e[1] else {}
    return {(e,): 1}

def mk_poly(d):
    d = {m: c for m, c in d.items() if c != 0}
    if not d: return ("num", 0)
    if len(d) == 1:
        (m, c), = d.items()
        if m == (): return ("num", c)
        if c == 1 and len(m) == 1: return m[0]
    items = sorted(d.items(), key=lambda mc: (len(mc[0]) == 0, len(mc[0]), tuple(_key(a) for a in mc[0])))
    return ("poly", tuple(items))

def p_add(a, b, sign=1):
    d = dict(a)
    for m, c in b.items(): d[m] = d.get(m, 0) + sign * c
    return d

def p_mul(a, b):
    d = {}
    for m1, c1 in a.items():
        for m2, c2 in b.items():
            m = tuple(sorted(m1 + m2, key=_key))
            d[m] = d.get(m, 0) + c1 * c2
    return d

def strip_refs(e):
    while isinstance(e, tuple) and e and ((e[0] == "un" and e[1] in ("&", "*")) or
                                         (e[0] == "mcall" and e[2] in ("clone", "cloned", "copied", "to_owned", "borrow") and not e[3])):
        e = e[2] if e[0] == "un" else e[1]
    return e

def is_boolish(e):
    if e[0] in ("cmp", "and", "or", "not", "bool"): return True
    if e[0] == "mcall" and (e[2].startswith("is_") or e[2] in ("contains", "contains_key", "any", "all", "eq", "ne")): return True
    if e[0] == "call" and e[1][0] == "path" and e[1][1][-1].startswith("is_"): return True
    return False

class Normaliser:
    def __init__(self):
        self.level = 0

    def norm(self, e, benv=None):
        benv = benv or {}
        k = e[0]
        N = lambda x: self.norm(x, benv)
        if k == "num": return e
        if k in ("float", "str", "char", "bool", "panic"): return e
        if k == "path":
            if len(e[1]) == 1 and e[1][0] in benv: return ("path", (benv[e[1][0]],))
            return e
        if k == "poly":
            # re-normalise (atoms may have been substituted since)
            tot = {}
            for m, c in e[1]:
                t = {(): c}
                for a in m: t = p_mul(t, as_poly(N(a)))
                tot = p_add(tot, t)
            return mk_poly(tot)
        if k == "un":
            op, x = e[1], N(e[2])
            if op in ("&", "*"): return x
            if op == "!": return self.negate(x)
            if op == "-": return ("un", "-", x)
        if k == "cast":
            x = N(e[1])
            if INT_CAST.match(e[2]):
                if is_boolish(x): return ("b2n", x)
                return ("cast", x, "int")          # width changes are not modelled: one opaque integer cast
            return ("cast", x, e[2])
        if k == "bin":
            op = e[1]
            a, b = N(e[2]), N(e[3])
            if op == "+": return mk_poly(p_add(as_poly(a), as_poly(b)))
            if op == "*": return mk_poly(p_mul(as_poly(a), as_poly(b)))
            if op == "-":
                pa, pb = as_poly(a), as_poly(b)
                if set(pb) <= {()}:
                    c = pb.get((), 0)
                    if c == 0: return a
                    if pa.get((), 0) >= c and all(v > 0 for v in pa.values()):
                        return mk_poly(p_add(pa, {(): c}, -1))
                if a == b: return ("num", 0)
                return ("sub", a, b)
            if op == "/": return ("div", a, b)
            if op == "%": return ("mod", a, b)
            if op == "<<":
                if b[0] == "num" and 0 <= b[1] < 64: return mk_poly(p_mul(as_poly(a), {(): 2 ** b[1]}))
                return ("shl", a, b)
            if op == ">>": return ("shr", a, b)
            if op in ("&", "|", "^"):
                tag = {"&": "band", "|": "bor", "^": "bxor"}[op]
                xs = []
                for x in (a, b):
                    if x[0] == tag: xs.extend(x[1])
                    else: xs.append(x)
                return (tag, tuple(sorted(xs, key=_key)))
            if op in ("&&", "||"):
                tag = "and" if op == "&&" else "or"
                xs = []
                for x in (a, b):
                    if x[0] == tag: xs.extend(x[1])
                    else: xs.append(x)
                return (tag, tuple(sorted(set(xs), key=_key)))
            if op in ("==", "!=", "<", "<=", ">", ">="):
                return self.compare(op, a, b)
            raise Unrecognised("operator %s" % op)
        if k == "ite":
            return self.ite(N(e[1]), N(e[2]), N(e[3]))
        if k == "if":
            raise Unrecognised("un-evaluated if")
        if k == "max" or k == "min":
            return self.maxmin(k, [N(x) for x in e[1]])
        if k == "call":
            fn, args = e[1], [N(x) for x in e[2]]
            if fn[0] == "path":
                p = fn[1]
                if p in MAXMIN_PATHS and len(args) == 2:
                    return self.maxmin(MAXMIN_PATHS[p], args)
                if p[-1] == "from" and len(p) == 2 and INT_CAST.match(p[0]) and len(args) == 1:
                    return ("b2n", args[0]) if is_boolish(args[0]) else ("cast", args[0], "int")
                if len(p) >= 2 and p[-1] in UFCS_METHODS and len(args) >= 1:
                    return ("mcall", args[0], p[-1], tuple(args[1:]))
                if p in (("Some",),) and len(args) == 1:
                    return ("call", fn, tuple(args))
            else:
                fn = N(fn)
            return ("call", fn, tuple(args))
        if k == "mcall":
            recv, name, args = N(e[1]), e[2], [N(x) for x in e[3]]
            if name in ("clone", "cloned", "copied", "to_owned", "borrow") and not args: return recv
            if name in ("max", "min") and len(args) == 1: return self.maxmin(name, [recv, args[0]])
            if name == "pow" and len(args) == 1 and args[0][0] == "num" and 0 <= args[0][1] <= 8:
                r = {(): 1}
                for _ in range(args[0][1]): r = p_mul(r, as_poly(recv))
                return mk_poly(r)
            if name == "map_or" and len(args) == 2 and args[1][0] == "closure" and len(args[1][1]) == 1:
                # closure already normalised: ("closure", (pat,), body) with positional binder names
                return ("optcase", recv, args[1][1][0], args[1][2], args[0])
            return ("mcall", recv, name, tuple(args))
        if k == "closure":
            b2 = dict(benv); pats = []
            for p in e[1]:
                pats.append(self.rename_pat(p, b2))
            return ("closure", tuple(pats), self.norm(e[2], b2))
        if k == "match":
            scrut = N(e[1])
            arms = []
            for pat, guard, body in e[2]:
                b2 = dict(benv)
                p2 = self.rename_pat(pat, b2)
                arms.append((p2, self.norm(guard, b2) if guard is not None else None, self.norm(body, b2)))
            # Option handling: Some(p) => A, None|_ => B   (either order)
            if len(arms) == 2 and all(a[1] is None for a in arms):
                some = [a for a in arms if a[0][0] == "ptstruct" and a[0][1] == ("Some",) and len(a[0][2]) == 1]
                none = [a for a in arms if a[0] == ("ppath", ("None",)) or a[0] == ("pwild",)]
                if len(some) == 1 and len(none) == 1:
                    return ("optcase", scrut, some[0][0][2][0], some[0][2], none[0][2])
                # bool match
                t = [a for a in arms if a[0] == ("plit", ("bool", True))]
                f = [a for a in arms if a[0] in (("plit", ("bool", False)), ("pwild",))]
                if len(t) == 1 and len(f) == 1:
                    return self.ite(scrut, t[0][2], f[0][2])
            return ("match", scrut, tuple(arms))
        if k == "tuple":
            return ("tuple", tuple(N(x) for x in e[1]))
        if k == "field":
            r = N(e[1])
            if r[0] == "tuple" and e[2].isdigit() and int(e[2]) < len(r[1]): return r[1][int(e[2])]
            return ("field", r, e[2])
        if k == "index":
            return ("index", N(e[1]), N(e[2]))
        if k == "try":
            return ("try", N(e[1]))
        if k == "range":
            return ("range", N(e[1]) if e[1] is not None else None, N(e[2]) if e[2] is not None else None, e[3])
        if k in ("list",):
            return ("list", tuple(N(x) for x in e[1]))
        if k == "concat":
            parts = []
            for x in e[1]:
                x = N(x)
                if x[0] == "concat": parts.extend(x[1])
                elif x[0] == "list" and not x[1]: continue
                else: parts.append(x)
            # merge adjacent literal lists
            merged = []
            for x in parts:
                if merged and merged[-1][0] == "list" and x[0] == "list":
                    merged[-1] = ("list", merged[-1][1] + x[1])
                else:
                    merged.append(x)
            if len(merged) == 1: return merged[0]
            return ("concat", tuple(merged))
        if k == "vecrep":
            return ("vecrep", N(e[1]), N(e[2]))
        if k == "macro":
            return ("macro", e[1], tuple(N(x) for x in e[2]))
        if k == "macro_raw":
            return e
        if k == "struct":
            return ("struct", e[1], tuple(sorted(((n, N(v)) for n, v in e[2]), key=lambda nv: nv[0])), N(e[3]) if e[3] is not None else None)
        if k == "block":
            if not e[1] and e[2] is not None: return N(e[2])
            raise Unrecognised("un-evaluated block")
        if k in ("b2n", "not"):
            return (k, N(e[1]))
        if k in ("div", "mod", "sub", "shr", "shl"):
            return (k, N(e[1]), N(e[2]))
        if k in ("band", "bor", "bxor", "and", "or"):
            return (k, tuple(sorted((N(x) for x in e[1]), key=_key)))
        if k == "cmp":
            return e
        if k == "optcase":
            return e
        if k == "array":
            return ("list", tuple(N(x) for x in e[1]))
        if k == "repeat":
            return ("vecrep", N(e[1]), N(e[2]))
        raise Unrecognised("normalise: node %s" % k)

    def rename_pat(self, p, benv):
        k = p[0]
        if k == "pid":
            name = "_b%d" % len([v for v in benv.values() if v.startswith("_b")])
            benv[p[1]] = name
            sub = self.rename_pat(p[4], benv) if p[4] is not None else None
            return ("pid", name, False, False, sub)
        if k == "pref": return self.rename_pat(p[1], benv)       # reference patterns do not matter for values
        if k == "ptuple": return ("ptuple", tuple(self.rename_pat(x, benv) for x in p[1]))
        if k == "ptstruct": return ("ptstruct", p[1], tuple(self.rename_pat(x, benv) for x in p[2]))
        if k == "pstruct": return ("pstruct", p[1], tuple((n, self.rename_pat(x, benv)) for n, x in p[2]))
        if k == "por": return ("por", tuple(self.rename_pat(x, benv) for x in p[1]))
        if k == "pslice": return ("pslice", tuple(self.rename_pat(x, benv) for x in p[1]))
        return p

    def negate(self, x):
        if x[0] == "not": return x[1]
        if x[0] == "bool": return ("bool", not x[1])
        if x[0] == "cmp":
            op, a, b = x[1], x[2], x[3]
            # canonical ops are <, <=, ==, != with key(a) <= key(b) …
            if op == "<": return self.compare(">=", a, b)
            if op == "<=": return self.compare(">", a, b)
            if op == "==": return ("cmp", "!=", a, b)
            if op == "!=": return ("cmp", "==", a, b)
        if x[0] == "and": return ("or", tuple(sorted((self.negate(y) for y in x[1]), key=_key)))
        if x[0] == "or": return ("and", tuple(sorted((self.negate(y) for y in x[1]), key=_key)))
        return ("not", x)

    def compare(self, op, a, b):
        """orient so that key(a) <= key(b); ops stay within {<, <=, >, >=, ==, !=}; `a > b` is kept as `b < a` only when that
        orients it; otherwise represented with the flipped operator (still canonical: one spelling per relation)"""
        # move a common constant: (x + 1) <= y stays; nothing clever
        flip = {"<": ">", "<=": ">=", ">": "<", ">=": "<=", "==": "==", "!=": "!="}
        if _key(a) > _key(b):
            a, b, op = b, a, flip[op]
        return ("cmp", op, a, b)

    def ite(self, c, a, b):
        if a == b: return a
        if c[0] == "bool": return a if c[1] else b
        if c[0] == "not": return self.ite(c[1], b, a)
        if c[0] == "cmp":
            op, x, y = c[1], c[2], c[3]
            if op in (">", ">=", "!="):
                neg = {">": "<=", ">=": "<", "!=": "=="}[op]
                return self.ite(("cmp", neg, x, y), b, a)
            if op in ("<", "<="):
                if a == x and b == y: return self.maxmin("min", [x, y])
                if a == y and b == x: return self.maxmin("max", [x, y])
        if a[0] == "tuple" and b[0] == "tuple" and len(a[1]) == len(b[1]):
            return ("tuple", tuple(self.ite(c, p, q) for p, q in zip(a[1], b[1])))
        if a == ("num", 1) and b == ("num", 0): return ("b2n", c)
        if a == ("num", 0) and b == ("num", 1): return ("b2n", self.negate(c))
        if a == ("bool", True) and b == ("bool", False): return c
        if a == ("bool", False) and b == ("bool", True): return self.negate(c)
        return ("ite", c, a, b)

    def maxmin(self, tag, xs):
        flat = []
        for x in xs:
            if x[0] == tag: flat.extend(x[1])
            else: flat.append(x)
        flat = sorted(set(flat), key=_key)
        if len(flat) == 1: return flat[0]
        nums = [x for x in flat if x[0] == "num"]
        if len(nums) > 1:
            v = (max if tag == "max" else min)(x[1] for x in nums)
            flat = [x for x in flat if x[0] != "num"] + [("num", v)]
        return (tag, tuple(flat))


def norm(e):
    return Normaliser().norm(e)

def evaluate(f, helpers=None, inline_depth=1):
    """evaluate fn item `f` to its canonical result expression over its parameter names"""
    return norm(Evaluator(helpers, inline_depth).run_fn(f))

def rename_params(e, mapping):
    """rename free single-segment paths"""
    return subst(e, {("path", (a,)): ("path", (b,)) for a, b in mapping.items()})

# ------------------------------------------------------------------------------------------------------------------
# Lean rendering of canonical arithmetic

def to_lean(e, names=None):
    """Lean term over Nat of a canonical arithmetic node; `names` maps atoms (canonical nodes) to Lean identifiers,
    single-segment paths render as themselves"""
    names = names or {}
    def atom(x):
        if x in names: return names[x]
        k = x[0]
        if k == "path" and len(x[1]) == 1 and re.fullmatch(r"[A-Za-z_][A-Za-z0-9_]*", x[1][0]): return x[1][0]
        if k == "num": return str(x[1])
        if k == "poly": return "(" + poly(x) + ")"
        if k in ("max", "min"):
            s = atom(x[1][0])
            for y in x[1][1:]: s = "(%s %s %s)" % (k, s, atom(y))
            return s
        if k == "div": return "(%s / %s)" % (atom(x[1]), atom(x[2]))
        if k == "mod": return "(%s %% %s)" % (atom(x[1]), atom(x[2]))
        if k == "sub": return "(%s - %s)" % (atom(x[1]), atom(x[2]))
        if k == "shr": return "(%s >>> %s)" % (atom(x[1]), atom(x[2]))
        if k == "shl": return "(%s <<< %s)" % (atom(x[1]), atom(x[2]))
        if k == "ite": return "(if %s then %s else %s)" % (cond(x[1]), atom(x[2]), atom(x[3]))
        raise Unrecognised("no Lean rendering for node %s" % (k,))
    def cond(c):
        if c[0] == "cmp":
            op = {"<": "<", "<=": "≤", ">": ">", ">=": "≥", "==": "=", "!=": "≠"}[c[1]]
            return "%s %s %s" % (atom(c[2]), op, atom(c[3]))
        if c[0] == "and": return " ∧ ".join("(" + cond(y) + ")" for y in c[1])
        if c[0] == "or": return " ∨ ".join("(" + cond(y) + ")" for y in c[1])
        if c[0] == "not": return "¬ (" + cond(c[1]) + ")"
        raise Unrecognised("no Lean rendering for condition %s" % (c[0],))
    def poly(p):
        terms = []
        for m, c in p[1]:
            fs = [atom(a) for a in m]
            if not fs: terms.append(str(c))
            elif c == 1: terms.append(" * ".join(fs))
            else: terms.append(" * ".join([str(c)] + fs))
        return " + ".join(terms)
    if e[0] == "poly": return poly(e)
    s = atom(e)
    if s.startswith("(") and s.endswith(")") and _balanced_outer(s): return s[1:-1]
    return s

def _balanced_outer(s):
    d = 0
    for i, c in enumerate(s):
        if c == "(": d += 1
        elif c == ")":
            d -= 1
            if d == 0 and i != len(s) - 1: return False
    return True

def show(e):
    """compact debugging / message rendering of any node"""
    try:
        return to_lean(e)
    except Exception:
        return repr(e)[:200]


if __name__ == "__main__":
    import sys, time
    t0 = time.time()
    for path in sys.argv[1:]:
        F = parse_file(open(path).read())
        bad = [f for f in F.fns if f.error]
        print("%s: %d fns, %d consts, %d unparsed bodies" % (path, len(F.fns), len(F.consts), len(bad)))
        for f in bad:
            print("   ", f.name, "line", f.line, ":", f.error)
    print("%.2fs" % (time.time() - t0))
