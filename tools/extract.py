#!/usr/bin/env python3
"""
Regenerates lean/PetgraphModel/Extracted/*.lean from /repo/src on every run (fail-closed).

Scratch.lean — for every function in src/algo/*.rs (and visit/traversal.rs, visit/dfsvisit.rs): each scratch
container sized by a graph size function (vec![_; E], FixedBitSet::with_capacity(E), x.resize(E, _),
UnionFind::new(E) — indexed by the arguments of union/find/equiv —, and struct-literal fields `f: vec![_; E]`
— indexed as `self.f[..]` anywhere in the file), which
size function E comes from (node_count / node_bound / edge_count / edge_bound / size_hint / other), whether
the container is indexed through `to_index` (or a closure alias of it, or `.index()`), whether the function
enumerates `0..node_count` and maps the numbers back with `from_index`, and whether the function's signature
(or the header of the `impl` block the function is in) restricts the graph to compactly indexed types.  Theorems/C07.lean proves from this table that no scratch
container can be indexed out of bounds on a graph with vacant indices.

Outcomes (tools/tielib.py; DESIGN.md Appendix E).  One item per function that owns scratch containers
(`scratch.<file>::<fn>`), one for the Csr cut-off, the items of the per-property extractors tools/extract_*.py:
  recognised / changed   the rows (definitions) are regenerated and the theorems are checked against them
  unrecognised           a source SHAPE the extractor cannot translate (a size expression it cannot classify, a UnionFind
                         that is not bound by a `let`, an index it cannot trace to `to_index`): the item keeps its recorded
                         baseline rows, `extract: UNRECOGNISED <item> (<file>:<fn>): falling back to the correspondence
                         check` is printed, exit code 0; ./check widens the correspondence search for the properties concerned
  broken                 not a shape problem — a file is missing, a function that must own a container has none any more, a
                         UnionFind / Vf2State vector disappeared: `extractionProblems` is non-empty (the theorem fails), exit 1
The outcome of every item is written to work/extract_status.json ({item: {status, where, props, detail}}).

usage: tools/extract.py [--write-baseline]
"""
import os, re, sys, glob, json
sys.path.insert(0, os.path.dirname(os.path.abspath(__file__)))
from tielib import Tie, Broken, parse_status_lines
from rustexpr import Unrecognised

REPO = os.environ.get("PG_REPO", "/repo")
ROOT = os.path.dirname(os.path.dirname(os.path.abspath(__file__)))
OUT = os.path.join(ROOT, "lean", "PetgraphModel", "Extracted")

def strip_comments(src):
    # remove // comments and /* */ (keeps line structure roughly); string literals in these files contain no braces that matter
    src = re.sub(r"/\*.*?\*/", lambda m: " " * len(m.group(0)), src, flags=re.S)
    out = []
    for line in src.split("\n"):
        i = line.find("//")
        out.append(line if i < 0 else line[:i])
    return "\n".join(out)

def functions(src):
    """yield (name, signature_text, body_text, start_offset) for every fn item"""
    for m in re.finditer(r"\bfn\s+([A-Za-z_][A-Za-z0-9_]*)", src):
        name = m.group(1)
        i = m.end()
        depth_par = 0
        # find the opening brace of the body (skip the signature; `;` first means a trait method declaration)
        j = i
        while j < len(src):
            c = src[j]
            if c in "([":
                depth_par += 1
            elif c in ")]":
                depth_par -= 1
            elif c == ";" and depth_par == 0:
                j = -1
                break
            elif c == "{" and depth_par == 0:
                break
            j += 1
        if j < 0 or j >= len(src):
            continue
        sig = src[m.start():j]
        depth, k = 0, j
        while k < len(src):
            if src[k] == "{":
                depth += 1
            elif src[k] == "}":
                depth -= 1
                if depth == 0:
                    break
            k += 1
        yield name, sig, src[j:k + 1], m.start()

def impl_blocks(src):
    """(start, end, header_text) of every `impl … {` block"""
    res = []
    for m in re.finditer(r"\bimpl\b", src):
        j = m.end()
        while j < len(src) and src[j] not in "{;":
            j += 1
        if j >= len(src) or src[j] == ";":
            continue
        depth, k = 0, j
        while k < len(src):
            if src[k] == "{":
                depth += 1
            elif src[k] == "}":
                depth -= 1
                if depth == 0:
                    break
            k += 1
        res.append((m.start(), k, src[m.start():j]))
    return res

def balanced(text, i, open_c="(", close_c=")"):
    """text[i] is just after an opening bracket: return (contents, index after the closing bracket)"""
    depth, j = 1, i
    while j < len(text) and depth:
        if text[j] == open_c: depth += 1
        elif text[j] == close_c: depth -= 1
        j += 1
    return text[i:j - 1], j

UF_METHODS = r"(?:union|find|find_mut|equiv|try_union|try_find|try_find_mut|try_equiv)"

def uf_args_by_to_index(text, recv_pat, aliases):
    """is some argument of `<recv>.union(..)/find(..)/…` in `text` computed by `to_index` (directly, through a
    closure alias, or through a local bound — possibly by a tuple pattern — to an expression containing `to_index(`)?"""
    hit = False
    for m in re.finditer(recv_pat + r"\s*\.\s*" + UF_METHODS + r"\s*\(", text):
        args, _ = balanced(text, m.end())
        if "to_index(" in args or any(re.search(r"\b%s\(" % a, args) for a in aliases):
            hit = True
        for v in re.findall(r"[A-Za-z_][A-Za-z0-9_]*", args):
            if re.search(r"\blet\s+[^=;]*\b%s\b[^=;]*=\s*[^;]*to_index\(" % re.escape(v), text):
                hit = True
    return hit

SIZE_KINDS = [("node_bound()", "nodeBound"), ("edge_bound()", "edgeBound"), ("node_count()", "nodeCount"),
              ("edge_count()", "edgeCount"), ("size_hint()", "sizeHint")]

def classify_size(expr, body, depth=0):
    e = expr.strip()
    for pat, kind in SIZE_KINDS:
        if pat in e:
            return kind
    m = re.fullmatch(r"[A-Za-z_][A-Za-z0-9_]*", e)
    if m and depth < 3:
        d = re.search(r"\blet\s+(?:mut\s+)?%s\s*(?::[^=]+)?=\s*([^;]+);" % re.escape(e), body)
        if d:
            return classify_size(d.group(1), body, depth + 1)
    if not m and depth < 3:
        # a compound expression (`c0 * (g.is_directed() as usize)`): any local in it that is a graph size
        for v in re.findall(r"\b[A-Za-z_][A-Za-z0-9_]*\b(?!\s*[(!:.])", e):
            if re.search(r"\blet\s+(?:mut\s+)?%s\s*(?::[^=]+)?=" % re.escape(v), body):
                k = classify_size(v, body, depth + 1)
                if k != "other":
                    return k
    return "other"

def to_index_aliases(body):
    al = set()
    for m in re.finditer(r"\blet\s+([A-Za-z_][A-Za-z0-9_]*)\s*=\s*\|[^|]*\|\s*[^;]*?to_index\(", body):
        al.add(m.group(1))
    return al

def bracket_contents(body, var):
    """contents of every `var[ … ]` (balanced) and of var.get(…)/get_mut(…)/put(…)/contains(…)/set(…)/visit(…)"""
    res = []
    for m in re.finditer(r"\b%s\s*\[" % re.escape(var), body):
        i = m.end(); depth = 1; j = i
        while j < len(body) and depth:
            if body[j] == "[": depth += 1
            elif body[j] == "]": depth -= 1
            j += 1
        res.append(body[i:j - 1])
    for m in re.finditer(r"\b%s\s*\.\s*(?:get|get_mut|put|contains|set|insert|toggle)\s*\(" % re.escape(var), body):
        i = m.end(); depth = 1; j = i
        while j < len(body) and depth:
            if body[j] == "(": depth += 1
            elif body[j] == ")": depth -= 1
            j += 1
        res.append(body[i:j - 1])
    return res

ALLOC_SITE = re.compile(r"\bvec!\[|\bFixedBitSet::with_capacity\(|\.\s*resize\(|\bUnionFind\s*(?:::\s*<[^>]*>\s*)?::\s*new\s*\(")

def vec_macro_size(body, start):
    """body[start] is just after `vec![`: the size part of `vec![elem; size]` or None"""
    inner, _ = balanced(body, start, "[", "]")
    d, cut = 0, -1
    for k, c in enumerate(inner):
        if c in "[(": d += 1
        elif c in "])": d -= 1
        elif c == ";" and d == 0: cut = k
    return inner[cut + 1:] if cut >= 0 else None

def index_by_to_index(c, text, aliases):
    """is the index expression `c` computed by to_index / .index() — directly, through a closure alias, or through a local
    that is bound (anywhere in `text`) to such an expression?"""
    cands = [c]
    for v in set(re.findall(r"\b[A-Za-z_][A-Za-z0-9_]*\b(?!\s*[(!:.])", c)):
        cands += [d.group(1) for d in re.finditer(r"\b%s\s*(?::[^=;]+)?=\s*([^;]+);" % re.escape(v), text)]
        cands += [d.group(0) for d in re.finditer(r"\blet\s*\([^)]*\b%s\b[^)]*\)\s*=\s*[^;]+;" % re.escape(v), text)]
    for cc in cands:
        if "to_index(" in cc or ".index()" in cc or any(re.search(r"\b%s\(" % a, cc) for a in aliases):
            return True
    return False

def scan():
    """-> (order [(rel, fn)], rows {(rel, fn): [row]}, shape {(rel, fn): [msg]}, broken [msg], sites {(rel, fn): n}, nfuncs)"""
    files = sorted(glob.glob(os.path.join(REPO, "src", "algo", "*.rs"))) + [
        os.path.join(REPO, "src", "visit", "traversal.rs"), os.path.join(REPO, "src", "visit", "dfsvisit.rs")]
    order, rows_by, shape, broken, sites = [], {}, {}, [], {}
    nfuncs = 0
    def add(key, row):
        if key not in rows_by:
            rows_by[key] = []; order.append(key)
        rows_by[key].append(row)
    for f in files:
        if not os.path.exists(f):
            broken.append("missing " + f); continue
        src = strip_comments(open(f).read())
        rel = os.path.relpath(f, os.path.join(REPO, "src"))
        impls = impl_blocks(src)
        for name, sig, body, pos in functions(src):
            nfuncs += 1
            key = (rel, name)
            sites[key] = sites.get(key, 0) + len(ALLOC_SITE.findall(body))
            compact = bool(re.search(r"NodeCompactIndexable|:\s*&?(?:mut\s+)?(?:'\w+\s+)?(?:Graph|List|UnweightedList|DiGraph|UnGraph)\s*<", sig))
            # a method: the bounds of the enclosing `impl` block(s) count as well
            impl_compact = any(a <= pos <= b and "NodeCompactIndexable" in h for a, b, h in impls)
            compact = compact or impl_compact
            aliases = to_index_aliases(body)
            allocs = []
            for m in re.finditer(r"\blet\s+(?:mut\s+)?([A-Za-z_][A-Za-z0-9_]*)\s*(?::[^=;]+)?=\s*(?:Some\()?vec!\[", body):
                sz = vec_macro_size(body, m.end())
                if sz is not None:
                    allocs.append((m.group(1), sz))
            for m in re.finditer(r"\blet\s+(?:mut\s+)?([A-Za-z_][A-Za-z0-9_]*)\s*(?::[^=;]+)?=\s*FixedBitSet::with_capacity\(([^;]*)\);", body):
                allocs.append((m.group(1), m.group(2)))
            for m in re.finditer(r"\b([A-Za-z_][A-Za-z0-9_.]*)\s*\.\s*resize\(([^,]+),", body):
                allocs.append((m.group(1).split(".")[-1], m.group(2)))
            # the same container spelled with iterators: (0..E).map(|_| x).collect(), repeat(x).take(E).collect()
            for m in re.finditer(r"\blet\s+(?:mut\s+)?([A-Za-z_][A-Za-z0-9_]*)\s*(?::[^=;]+)?=\s*\(\s*0\s*\.\.\s*([^)]+)\)\s*\.\s*map\(\s*\|\s*_\s*\|[^;]*\.collect(?:::<[^;]*>)?\(\)\s*;", body):
                allocs.append((m.group(1), m.group(2)))
            for m in re.finditer(r"\blet\s+(?:mut\s+)?([A-Za-z_][A-Za-z0-9_]*)\s*(?::[^=;]+)?=\s*(?:core::|std::)?(?:iter::)?repeat(?:_n)?\([^;]*?\.take\(([^;]*?)\)\s*\.collect(?:::<[^;]*>)?\(\)\s*;", body):
                allocs.append((m.group(1), m.group(2)))
            for var, sz in allocs:
                kind = classify_size(sz, body)
                if kind == "other":
                    continue
                by_to_index = any(index_by_to_index(c, body, aliases) for c in bracket_contents(body, var))
                add(key, (rel, name, var, kind, by_to_index, compact))
            # UnionFind::new(E): the "index" is every argument of union / find / equiv …; when the value is moved
            # into a struct field the uses are `self.<field>.union(..)` elsewhere in the file
            n_uf_text = len(re.findall(r"\bUnionFind\s*(?:::\s*<[^>]*>\s*)?::\s*new\s*\(", body))
            n_uf_seen = 0
            for m in re.finditer(r"\blet\s+(?:mut\s+)?([A-Za-z_][A-Za-z0-9_]*)\s*(?::[^=;]+)?=\s*UnionFind\s*(?:::\s*<[^>]*>\s*)?::\s*new\s*\(", body):
                n_uf_seen += 1
                var = m.group(1)
                sz, _ = balanced(body, m.end())
                kind = classify_size(sz, body)
                if kind == "other":
                    shape.setdefault(key, []).append("UnionFind::new(%s): size expression not recognised" % sz.strip())
                    continue
                by_to_index = uf_args_by_to_index(body, r"\b%s" % re.escape(var), aliases)
                uf_compact = compact
                fields = [var] if re.search(r"[{,]\s*%s\s*[,}]" % re.escape(var), body) else []
                fields += [fm.group(1) for fm in re.finditer(r"\b([A-Za-z_][A-Za-z0-9_]*)\s*:\s*%s\s*[,}]" % re.escape(var), body)]
                for fld in fields:
                    if uf_args_by_to_index(src, r"\.\s*%s" % re.escape(fld), aliases):
                        by_to_index = True
                    # the consumers' impl blocks must be compact-only as well for the row to count as compact-only
                    users = [h for a, b, h in impls if re.search(r"\.\s*%s\s*\.\s*%s" % (re.escape(fld), UF_METHODS), src[a:b])]
                    if users and not all("NodeCompactIndexable" in h for h in users):
                        uf_compact = False
                add(key, (rel, name, var + " (UnionFind)", kind, by_to_index, uf_compact))
            if n_uf_seen != n_uf_text:
                shape.setdefault(key, []).append("%d `UnionFind::new(` in the function but %d bound by `let x = UnionFind::new(E);`" % (n_uf_text, n_uf_seen))
            # struct-literal fields `f: vec![elem; E]` (e.g. Vf2State::new): indexed as `….f[..]` anywhere in the file
            for m in re.finditer(r"(?<![A-Za-z0-9_:])([a-z_][A-Za-z0-9_]*)\s*:\s*vec!\[", body):
                pre = body[:m.start()].rstrip()
                if not pre or pre[-1] not in "{,":
                    continue
                sz = vec_macro_size(body, m.end())
                if sz is None:
                    continue
                kind = classify_size(sz, body)
                if kind == "other":
                    continue
                fld = m.group(1)
                by_to_index = any(index_by_to_index(c, src, ()) for c in bracket_contents(src, fld))
                add(key, (rel, name, "field " + fld, kind, by_to_index, compact))
            # a size handed to a helper constructor (`let n = g.node_bound(); Tracker::new(n)`)
            for m in re.finditer(r"\blet\s+(?:mut\s+)?([A-Za-z_][A-Za-z0-9_]*)\s*=\s*([^;]*(?:node_count|node_bound|size_hint)\(\)[^;]*);", body):
                v = m.group(1)
                if re.search(r"::new\(\s*%s\s*\)|with_capacity\(\s*%s\s*\)" % (v, v), body) and key not in rows_by:
                    add(key, (rel, name, v + " (passed to a constructor)", classify_size(m.group(2), body), "to_index(" in body, compact))
            # … or without the local (`Tracker::new(g.node_bound())`), for the functions that must own a container
            if key not in rows_by and key in EXPECTED_FNS and "to_index(" in body:
                m = re.search(r"::new\(\s*([A-Za-z_][A-Za-z0-9_]*\s*\.\s*(?:node_bound|node_count)\(\))\s*\)", body)
                if m:
                    add(key, (rel, name, "size (passed to a constructor)", classify_size(m.group(1), body), True, compact))
            # enumeration 0..node_count mapped back through from_index
            if "from_index(" in body:
                for m in re.finditer(r"0\s*\.\.\s*([A-Za-z_][A-Za-z0-9_]*(?:\.[a-z_]+\(\))?)", body):
                    kind = classify_size(m.group(1), body)
                    if kind in ("nodeCount", "sizeHint"):
                        add(key, (rel, name, "<range 0.." + m.group(1) + " -> from_index>", kind, True, compact))
                        break
    return order, rows_by, shape, broken, sites, nfuncs

# functions that must own a scratch container (fail-closed against a silently blind extractor) …
EXPECTED_FNS = [("algo/k_shortest_path.rs", "k_shortest_path"), ("algo/ford_fulkerson.rs", "ford_fulkerson"),
                ("algo/spfa.rs", "spfa"), ("algo/bellman_ford.rs", "bellman_ford_initialize_relax"),
                ("algo/matching.rs", "greedy_matching_inner"), ("algo/coloring.rs", "dsatur_coloring"),
                ("algo/articulation_points.rs", "articulation_points"), ("algo/page_rank.rs", "page_rank"),
                ("algo/floyd_warshall.rs", "floyd_warshall"),
                ("algo/mod.rs", "connected_components"), ("algo/mod.rs", "is_cyclic_undirected"),
                ("algo/min_spanning_tree.rs", "min_spanning_tree"), ("algo/isomorphism.rs", "new")]
# … and the particular kinds of container (a union-find / a Vf2State vector that is no longer seen is a blind spot);
# by kind and number, not by name: renaming a local or a field is harmless
EXPECTED_KINDS = [("algo/mod.rs", "connected_components", "(UnionFind)", 1), ("algo/mod.rs", "is_cyclic_undirected", "(UnionFind)", 1),
                  ("algo/min_spanning_tree.rs", "min_spanning_tree", "(UnionFind)", 1), ("algo/isomorphism.rs", "new", "field ", 3)]

def row_text(r):
    a, b, c, d, e, g = r
    return '  ⟨"%s", "%s", "%s", .%s, %s, %s⟩' % (a, b, c.replace('"', "'"), d, "true" if e else "false", "true" if g else "false")

def main():
    wb = "--write-baseline" in sys.argv[1:]
    T = Tie("extract", wb)
    order, rows_by, shape, broken, sites, nfuncs = scan()
    for key in EXPECTED_FNS:
        if key not in rows_by and key not in shape:
            broken.append("no scratch container recognised any more in %s::%s" % key)
    for rel, fn, tag, n in EXPECTED_KINDS:
        key = (rel, fn)
        have = [r for r in rows_by.get(key, []) if tag in r[2]]
        if key in shape:
            continue
        if len(have) < n:
            broken.append("%s::%s: %d scratch container(s) `%s…` expected, %d recognised" % (rel, fn, n, tag.strip(), len(have)))
        elif not all(r[4] for r in have):
            shape.setdefault(key, []).append("the indexing of a `%s` container through to_index is not recognised any more" % tag.strip())
    # items: every function that has rows now, or had rows when the baseline was recorded
    keys = list(order)
    for name in sorted(T.base):
        if name.startswith("scratch."):
            rel, fn = name[len("scratch."):].split("::", 1)
            if (rel, fn) not in keys:
                keys.append((rel, fn))
    texts = []
    for key in keys:
        name = "scratch.%s::%s" % key
        def thunk(key=key, name=name):
            if key in shape:
                base = T.base.get(name)
                m = re.search(r"-- (\d+) allocation sites", base or "")
                if m and int(m.group(1)) != sites.get(key, 0):
                    raise Broken("%s; and the number of allocation sites in the function changed (%s -> %d), so the recorded rows cannot stand in"
                                 % ("; ".join(shape[key]), m.group(1), sites.get(key, 0)))
                raise Unrecognised("; ".join(shape[key]))
            rows = rows_by.get(key, [])
            if not rows and key not in sites:
                raise Broken("function %s::%s, which owned scratch containers, does not exist any more" % key)
            return "  -- %d allocation sites in %s::%s\n" % (sites.get(key, 0), key[0], key[1]) + ",\n".join(row_text(r) for r in rows)
        before = len(T.items)
        # the third field of a row is the name of the local / field: informative only
        anon = lambda txt: re.sub(r'(⟨"[^"]*", "[^"]*", )"(?:field )?[^"(<]*', r'\1"', txt)
        t = T.item(name, ["C07"], "src/%s:%s" % key, thunk, flag="scratch_" + re.sub(r"\W", "_", "%s__%s" % key),
                   same=lambda a, b: anon(a) == anon(b))
        it = T.items[before]
        if it["status"] == "broken":
            broken.append("%s: %s" % (name, it["detail"]))
            continue
        texts.append(t)
    # assemble: comment lines stay in front of their rows, commas only between rows
    out_rows = []
    for t in texts:
        lines = t.split("\n")
        out_rows.append(lines)
    flat = []
    for lines in out_rows:
        for l in lines:
            flat.append(l)
    # add separators: a row line is followed by "," iff another row line comes later
    row_idx = [i for i, l in enumerate(flat) if l.lstrip().startswith("⟨")]
    for i in row_idx[:-1]:
        flat[i] = flat[i].rstrip(",") + ","
    if row_idx:
        flat[row_idx[-1]] = flat[row_idx[-1]].rstrip(",")
    nrows = len(row_idx)
    os.makedirs(OUT, exist_ok=True)
    scratch = []
    scratch.append("/- GENERATED by tools/extract.py from %s/src on every run — do not edit. -/\n" % "/repo")
    scratch.append("namespace PetgraphModel.Extracted\n\n")
    scratch.append("inductive SizeSrc where | nodeCount | nodeBound | edgeCount | edgeBound | sizeHint\n  deriving Repr, DecidableEq\n\n")
    scratch.append("structure ScratchUse where\n  file : String\n  fn : String\n  var : String\n  size : SizeSrc\n  indexedByToIndex : Bool\n  compactOnly : Bool\n  deriving Repr, DecidableEq\n\n")
    scratch.append("def scratchTable : List ScratchUse := [\n")
    scratch.append("\n".join(flat))
    scratch.append("\n]\n\n")
    scratch.append("/-- fail-closed conditions (not shape problems): must be empty -/\n")
    scratch.append("def extractionProblems : List String := [%s]\n\n" % ", ".join('"%s"' % p.replace('"', "'").replace("\\", "/") for p in broken))
    scratch.append("/-- functions whose containers were not recognised in this run (their rows above are the recorded baseline; the tie\nrests on the correspondence check, DESIGN.md Appendix E) -/\n")
    scratch.append("def unrecognisedScratch : List String := [%s]\n\n" % ", ".join('"%s"' % it["item"] for it in T.items if it["status"] == "unrecognised"))
    scratch.append("end PetgraphModel.Extracted\n")
    scratch_text = "".join(scratch)
    # Csr.lean — the binary-search cut-off of Csr::find_edge_pos
    def cutoff():
        try:
            csr = open(os.path.join(REPO, "src", "csr.rs")).read()
        except OSError as e:
            raise Broken("cannot read src/csr.rs: %s" % e)
        m = re.search(r"const\s+BINARY_SEARCH_CUTOFF\s*:\s*usize\s*=\s*(\d[\d_]*)\s*;", csr)
        if not m:
            raise Unrecognised("`const BINARY_SEARCH_CUTOFF: usize = <int>;` not found")
        return "def cutoff : Nat := %d\n" % int(m.group(1).replace("_", ""))
    ct = T.item("csr.cutoff", ["C05"], "src/csr.rs:BINARY_SEARCH_CUTOFF", cutoff, flag="cutoff")
    csr_text = ("/- GENERATED by tools/extract.py from /repo/src/csr.rs on every run — do not edit.\n"
                "   `const BINARY_SEARCH_CUTOFF: usize`.  No C05 theorem depends on the value (`C05_find_pos` proves both\n"
                "   search branches equal on every strictly ascending slice); the driver uses it to run the same branch as the code. -/\n"
                "namespace PetgraphModel.Extracted.Csr\n\n" + ct + "\ndef recognised_cutoff : Bool := %s\n\nend PetgraphModel.Extracted.Csr\n"
                % ("true" if T.items[-1]["status"] in ("recognised", "changed") else "false"))
    old = open(os.path.join(OUT, "Csr.lean")).read() if os.path.exists(os.path.join(OUT, "Csr.lean")) else None
    if old != csr_text:
        with open(os.path.join(OUT, "Csr.lean"), "w") as f:
            f.write(csr_text)
    print("extract: %d functions scanned, %d scratch uses, %d problems" % (nfuncs, nrows, len(broken)))
    for p in broken:
        print("  PROBLEM:", p)
    # T.finish writes Scratch.lean (only when it changed, so that lake does not rebuild for nothing), prints the outcomes
    import io, contextlib
    buf = io.StringIO()
    with contextlib.redirect_stdout(buf):
        rc = T.finish(os.path.join(OUT, "Scratch.lean"), scratch_text)
    own = buf.getvalue()
    sys.stdout.write("\n".join(l for l in own.splitlines() if not l.startswith("@status ")) + "\n")
    status = parse_status_lines(own)
    rc = 1 if (broken or rc) else 0
    # per-property extractors written by the vertical builders (same contract)
    import subprocess
    for extra in sorted(glob.glob(os.path.join(ROOT, "tools", "extract_*.py"))):
        args = (["--src", os.path.join(REPO, "src", "matrix_graph.rs")] if extra.endswith("extract_matrix.py")
                else [REPO] if extra.endswith("extract_c06.py") else ["--repo", REPO])
        if wb:
            args.append("--write-baseline")
        r = subprocess.run([sys.executable, extra] + args, stdout=subprocess.PIPE, stderr=subprocess.STDOUT, text=True)
        print("\n".join(l for l in r.stdout.strip().splitlines() if not l.startswith("@status ")))
        st = parse_status_lines(r.stdout)
        if r.returncode not in (0, 1) or (not st):
            # the extractor itself crashed: fail closed
            status.append({"item": os.path.basename(extra), "props": ["C04", "C05", "C06", "C07", "C18"], "where": extra,
                           "status": "broken", "detail": "extractor crashed: " + r.stdout.strip()[-300:]})
            print("%s: tie broken: extractor crashed (rc=%s)" % (os.path.basename(extra), r.returncode))
            rc = 1
        status += st
        rc = rc or r.returncode
    os.makedirs(os.path.join(ROOT, "work"), exist_ok=True)
    with open(os.path.join(ROOT, "work", "extract_status.json"), "w") as f:
        json.dump({x["item"]: {k: x[k] for k in ("status", "where", "props", "detail")} for x in status}, f, indent=1, ensure_ascii=False)
    n = {}
    for x in status:
        n[x["status"]] = n.get(x["status"], 0) + 1
    print("extract: items " + ", ".join("%d %s" % (v, k) for k, v in sorted(n.items())) + " -> work/extract_status.json")
    sys.exit(1 if rc else 0)

if __name__ == "__main__":
    main()
