#!/usr/bin/env python3
"""
Regenerates lean/PetgraphModel/Extracted/*.lean from /repo/src on every run (fail-closed).

Scratch.lean — for every function in src/algo/*.rs (and visit/traversal.rs, visit/dfsvisit.rs): each scratch
container sized by a graph size function (vec![_; E], FixedBitSet::with_capacity(E), x.resize(E, _),
UnionFind::new(E) — indexed by the arguments of union/find/equiv —, and struct-literal fields `f: vec![_; E]`
— indexed as `self.f[..]` anywhere in the file), which
size function E comes from (node_count / node_bound / edge_count / edge_bound / size_hint / other), whether
the container is indexed through `to_index` (or a closure alias of it, or `.index()`), whether the function
enumerates `0..node_count` and maps the numbers back with `from_index`, and whether the function's signature
(or the header of the `impl` block the function is in) restricts the graph to compactly indexed types.  Theorems/C07.lean proves from this table that no scratch
container can be indexed out of bounds on a graph with vacant indices.

If a source shape is not recognised the script writes a definition that makes the theorem fail and exits 1.
"""
import os, re, sys, glob

REPO = os.environ.get("PG_REPO", "/repo")
ROOT = os.path.dirname(os.path.dirname(os.path.abspath(__file__)))
OUT = os.path.join(ROOT, "lean", "PetgraphModel", "Extracted")

def strip_comments(src):
    # remove // comments and /* */ (keeps line structure roughly); string literals in these files contain no braces that matter
    src = re.sub(r"/\*.*?\*/", lambda m: " " * len(m.group(0)), src, flags=re.S)
    out = []
    for line in src.split("\n"):
        i = line.find("//")
        out.append(line if i < 0 else line[:i])
    return "\n".join(out)

def functions(src):
    """yield (name, signature_text, body_text, start_offset) for every fn item"""
    for m in re.finditer(r"\bfn\s+([A-Za-z_][A-Za-z0-9_]*)", src):
        name = m.group(1)
        i = m.end()
        depth_par = 0
        # find the opening brace of the body (skip the signature; `;` first means a trait method declaration)
        j = i
        while j < len(src):
            c = src[j]
            if c in "([":
                depth_par += 1
            elif c in ")]":
                depth_par -= 1
            elif c == ";" and depth_par == 0:
                j = -1
                break
            elif c == "{" and depth_par == 0:
                break
            j += 1
        if j < 0 or j >= len(src):
            continue
        sig = src[m.start():j]
        depth, k = 0, j
        while k < len(src):
            if src[k] == "{":
                depth += 1
            elif src[k] == "}":
                depth -= 1
                if depth == 0:
                    break
            k += 1
        yield name, sig, src[j:k + 1], m.start()

def impl_blocks(src):
    """(start, end, header_text) of every `impl … {` block"""
    res = []
    for m in re.finditer(r"\bimpl\b", src):
        j = m.end()
        while j < len(src) and src[j] not in "{;":
            j += 1
        if j >= len(src) or src[j] == ";":
            continue
        depth, k = 0, j
        while k < len(src):
            if src[k] == "{":
                depth += 1
            elif src[k] == "}":
                depth -= 1
                if depth == 0:
                    break
            k += 1
        res.append((m.start(), k, src[m.start():j]))
    return res

def balanced(text, i, open_c="(", close_c=")"):
    """text[i] is just after an opening bracket: return (contents, index after the closing bracket)"""
    depth, j = 1, i
    while j < len(text) and depth:
        if text[j] == open_c: depth += 1
        elif text[j] == close_c: depth -= 1
        j += 1
    return text[i:j - 1], j

UF_METHODS = r"(?:union|find|find_mut|equiv|try_union|try_find|try_find_mut|try_equiv)"

def uf_args_by_to_index(text, recv_pat, aliases):
    """is some argument of `<recv>.union(..)/find(..)/…` in `text` computed by `to_index` (directly, through a
    closure alias, or through a local bound — possibly by a tuple pattern — to an expression containing `to_index(`)?"""
    hit = False
    for m in re.finditer(recv_pat + r"\s*\.\s*" + UF_METHODS + r"\s*\(", text):
        args, _ = balanced(text, m.end())
        if "to_index(" in args or any(re.search(r"\b%s\(" % a, args) for a in aliases):
            hit = True
        for v in re.findall(r"[A-Za-z_][A-Za-z0-9_]*", args):
            if re.search(r"\blet\s+[^=;]*\b%s\b[^=;]*=\s*[^;]*to_index\(" % re.escape(v), text):
                hit = True
    return hit

SIZE_KINDS = [("node_bound()", "nodeBound"), ("edge_bound()", "edgeBound"), ("node_count()", "nodeCount"),
              ("edge_count()", "edgeCount"), ("size_hint()", "sizeHint")]

def classify_size(expr, body, depth=0):
    e = expr.strip()
    for pat, kind in SIZE_KINDS:
        if pat in e:
            return kind
    m = re.fullmatch(r"[A-Za-z_][A-Za-z0-9_]*", e)
    if m and depth < 3:
        d = re.search(r"\blet\s+(?:mut\s+)?%s\s*(?::[^=]+)?=\s*([^;]+);" % re.escape(e), body)
        if d:
            return classify_size(d.group(1), body, depth + 1)
    if not m and depth < 3:
        # a compound expression (`c0 * (g.is_directed() as usize)`): any local in it that is a graph size
        for v in re.findall(r"\b[A-Za-z_][A-Za-z0-9_]*\b(?!\s*[(!:.])", e):
            if re.search(r"\blet\s+(?:mut\s+)?%s\s*(?::[^=]+)?=" % re.escape(v), body):
                k = classify_size(v, body, depth + 1)
                if k != "other":
                    return k
    return "other"

def to_index_aliases(body):
    al = set()
    for m in re.finditer(r"\blet\s+([A-Za-z_][A-Za-z0-9_]*)\s*=\s*\|[^|]*\|\s*[^;]*?to_index\(", body):
        al.add(m.group(1))
    return al

def bracket_contents(body, var):
    """contents of every `var[ … ]` (balanced) and of var.get(…)/get_mut(…)/put(…)/contains(…)/set(…)/visit(…)"""
    res = []
    for m in re.finditer(r"\b%s\s*\[" % re.escape(var), body):
        i = m.end(); depth = 1; j = i
        while j < len(body) and depth:
            if body[j] == "[": depth += 1
            elif body[j] == "]": depth -= 1
            j += 1
        res.append(body[i:j - 1])
    for m in re.finditer(r"\b%s\s*\.\s*(?:get|get_mut|put|contains|set|insert|toggle)\s*\(" % re.escape(var), body):
        i = m.end(); depth = 1; j = i
        while j < len(body) and depth:
            if body[j] == "(": depth += 1
            elif body[j] == ")": depth -= 1
            j += 1
        res.append(body[i:j - 1])
    return res

def main():
    files = sorted(glob.glob(os.path.join(REPO, "src", "algo", "*.rs"))) + [
        os.path.join(REPO, "src", "visit", "traversal.rs"), os.path.join(REPO, "src", "visit", "dfsvisit.rs")]
    rows = []
    problems = []
    nfuncs = 0
    for f in files:
        if not os.path.exists(f):
            problems.append("missing " + f); continue
        src = strip_comments(open(f).read())
        rel = os.path.relpath(f, os.path.join(REPO, "src"))
        impls = impl_blocks(src)
        n_uf_text = len(re.findall(r"\bUnionFind\s*(?:::\s*<[^>]*>\s*)?::\s*new\s*\(", src))
        n_uf_seen = 0
        for name, sig, body, pos in functions(src):
            nfuncs += 1
            compact = bool(re.search(r"NodeCompactIndexable|:\s*&?(?:mut\s+)?(?:'\w+\s+)?(?:Graph|List|UnweightedList|DiGraph|UnGraph)\s*<", sig))
            # a method: the bounds of the enclosing `impl` block(s) count as well
            impl_compact = any(a <= pos <= b and "NodeCompactIndexable" in h for a, b, h in impls)
            compact = compact or impl_compact
            aliases = to_index_aliases(body)
            allocs = []
            for m in re.finditer(r"\blet\s+(?:mut\s+)?([A-Za-z_][A-Za-z0-9_]*)\s*(?::[^=;]+)?=\s*(?:Some\()?vec!\[", body):
                i = m.end(); depth = 1; j = i
                while j < len(body) and depth:
                    if body[j] == "[": depth += 1
                    elif body[j] == "]": depth -= 1
                    j += 1
                inner = body[i:j - 1]
                # vec![elem; size]  (elem may itself be vec![..; ..])
                d, cut = 0, -1
                for k, c in enumerate(inner):
                    if c in "[(": d += 1
                    elif c in "])": d -= 1
                    elif c == ";" and d == 0: cut = k
                if cut >= 0:
                    allocs.append((m.group(1), inner[cut + 1:]))
            for m in re.finditer(r"\blet\s+(?:mut\s+)?([A-Za-z_][A-Za-z0-9_]*)\s*(?::[^=;]+)?=\s*FixedBitSet::with_capacity\(([^;]*)\);", body):
                allocs.append((m.group(1), m.group(2)))
            for m in re.finditer(r"\b([A-Za-z_][A-Za-z0-9_.]*)\s*\.\s*resize\(([^,]+),", body):
                allocs.append((m.group(1).split(".")[-1], m.group(2)))
            for var, sz in allocs:
                kind = classify_size(sz, body)
                if kind == "other":
                    continue
                by_to_index = False
                for c in bracket_contents(body, var):
                    cands = [c]
                    # an index held in a local: resolve its definitions / assignments one level
                    if re.fullmatch(r"\s*[A-Za-z_][A-Za-z0-9_]*\s*", c):
                        v = c.strip()
                        cands += [d.group(1) for d in re.finditer(r"\b%s\s*=\s*([^;]+);" % re.escape(v), body)]
                    for cc in cands:
                        if "to_index(" in cc or ".index()" in cc or any(re.search(r"\b%s\(" % a, cc) for a in aliases):
                            by_to_index = True
                rows.append((rel, name, var, kind, by_to_index, compact))
            # UnionFind::new(E): the "index" is every argument of union / find / equiv …; when the value is moved
            # into a struct field the uses are `self.<field>.union(..)` elsewhere in the file
            for m in re.finditer(r"\blet\s+(?:mut\s+)?([A-Za-z_][A-Za-z0-9_]*)\s*(?::[^=;]+)?=\s*UnionFind\s*(?:::\s*<[^>]*>\s*)?::\s*new\s*\(", body):
                n_uf_seen += 1
                var = m.group(1)
                sz, _ = balanced(body, m.end())
                kind = classify_size(sz, body)
                if kind == "other":
                    problems.append("%s::%s: UnionFind::new(%s): size expression not recognised" % (rel, name, sz.strip()))
                    continue
                by_to_index = uf_args_by_to_index(body, r"\b%s" % re.escape(var), aliases)
                uf_compact = compact
                fields = [var] if re.search(r"[{,]\s*%s\s*[,}]" % re.escape(var), body) else []
                fields += [fm.group(1) for fm in re.finditer(r"\b([A-Za-z_][A-Za-z0-9_]*)\s*:\s*%s\s*[,}]" % re.escape(var), body)]
                for fld in fields:
                    if uf_args_by_to_index(src, r"\.\s*%s" % re.escape(fld), aliases):
                        by_to_index = True
                    # the consumers' impl blocks must be compact-only as well for the row to count as compact-only
                    users = [h for a, b, h in impls if re.search(r"\.\s*%s\s*\.\s*%s" % (re.escape(fld), UF_METHODS), src[a:b])]
                    if users and not all("NodeCompactIndexable" in h for h in users):
                        uf_compact = False
                rows.append((rel, name, var + " (UnionFind)", kind, by_to_index, uf_compact))
            # struct-literal fields `f: vec![elem; E]` (e.g. Vf2State::new): indexed as `….f[..]` anywhere in the file
            for m in re.finditer(r"(?<![A-Za-z0-9_:])([a-z_][A-Za-z0-9_]*)\s*:\s*vec!\[", body):
                pre = body[:m.start()].rstrip()
                if not pre or pre[-1] not in "{,":
                    continue
                inner, _ = balanced(body, m.end(), "[", "]")
                d, cut = 0, -1
                for k, c in enumerate(inner):
                    if c in "[(": d += 1
                    elif c in "])": d -= 1
                    elif c == ";" and d == 0: cut = k
                if cut < 0:
                    continue
                kind = classify_size(inner[cut + 1:], body)
                if kind == "other":
                    continue
                fld = m.group(1)
                by_to_index = False
                for c in bracket_contents(src, fld):
                    if "to_index(" in c or ".index()" in c:
                        by_to_index = True
                rows.append((rel, name, "field " + fld, kind, by_to_index, compact))
            # a size handed to a helper constructor (`let n = g.node_bound(); Tracker::new(n)`)
            for m in re.finditer(r"\blet\s+(?:mut\s+)?([A-Za-z_][A-Za-z0-9_]*)\s*=\s*([^;]*(?:node_count|node_bound|size_hint)\(\)[^;]*);", body):
                v = m.group(1)
                if re.search(r"::new\(\s*%s\s*\)|with_capacity\(\s*%s\s*\)" % (v, v), body) and not any(r[1] == name and r[0] == rel for r in rows):
                    rows.append((rel, name, v + " (passed to a constructor)", classify_size(m.group(2), body), "to_index(" in body, compact))
            # enumeration 0..node_count mapped back through from_index
            if "from_index(" in body:
                for m in re.finditer(r"0\s*\.\.\s*([A-Za-z_][A-Za-z0-9_]*(?:\.[a-z_]+\(\))?)", body):
                    kind = classify_size(m.group(1), body)
                    if kind in ("nodeCount", "sizeHint"):
                        rows.append((rel, name, "<range 0.." + m.group(1) + " -> from_index>", kind, True, compact))
                        break
        if n_uf_seen != n_uf_text:
            problems.append("%s: %d `UnionFind::new(` in the text but %d recognised as `let x = UnionFind::new(E);`" % (rel, n_uf_text, n_uf_seen))
    # sanity: the known allocation sites must have been seen (fail-closed against a silently blind extractor)
    expected = [("algo/k_shortest_path.rs", "k_shortest_path"), ("algo/ford_fulkerson.rs", "ford_fulkerson"),
                ("algo/spfa.rs", "spfa"), ("algo/bellman_ford.rs", "bellman_ford_initialize_relax"),
                ("algo/matching.rs", "greedy_matching_inner"), ("algo/coloring.rs", "dsatur_coloring"),
                ("algo/articulation_points.rs", "articulation_points"), ("algo/page_rank.rs", "page_rank"),
                ("algo/floyd_warshall.rs", "floyd_warshall"),
                ("algo/mod.rs", "connected_components"), ("algo/mod.rs", "is_cyclic_undirected"),
                ("algo/min_spanning_tree.rs", "min_spanning_tree"), ("algo/isomorphism.rs", "new")]
    seen = {(r[0], r[1]) for r in rows}
    for e in expected:
        if e not in seen:
            problems.append("no scratch container recognised any more in %s::%s" % e)
    # … and the particular containers (a union-find / a Vf2State vector that is no longer seen is a blind spot)
    expected_vars = [("algo/mod.rs", "connected_components", "vertex_sets (UnionFind)"),
                     ("algo/mod.rs", "is_cyclic_undirected", "edge_sets (UnionFind)"),
                     ("algo/min_spanning_tree.rs", "min_spanning_tree", "subgraphs (UnionFind)"),
                     ("algo/isomorphism.rs", "new", "field mapping"), ("algo/isomorphism.rs", "new", "field out"),
                     ("algo/isomorphism.rs", "new", "field ins")]
    seen3 = {(r[0], r[1], r[2]): r for r in rows}
    for e in expected_vars:
        if e not in seen3:
            problems.append("scratch container `%s` of %s::%s not recognised any more" % (e[2], e[0], e[1]))
        elif not seen3[e][4]:
            problems.append("scratch container `%s` of %s::%s: its indexing through to_index is not recognised any more" % (e[2], e[0], e[1]))
    os.makedirs(OUT, exist_ok=True)
    with open(os.path.join(OUT, "Scratch.lean"), "w") as f:
        f.write("/- GENERATED by tools/extract.py from %s/src on every run — do not edit. -/\n" % REPO)
        f.write("namespace PetgraphModel.Extracted\n\n")
        f.write("inductive SizeSrc where | nodeCount | nodeBound | edgeCount | edgeBound | sizeHint\n  deriving Repr, DecidableEq\n\n")
        f.write("structure ScratchUse where\n  file : String\n  fn : String\n  var : String\n  size : SizeSrc\n  indexedByToIndex : Bool\n  compactOnly : Bool\n  deriving Repr, DecidableEq\n\n")
        f.write("def scratchTable : List ScratchUse := [\n")
        f.write(",\n".join('  ⟨"%s", "%s", "%s", .%s, %s, %s⟩' % (a, b, c.replace('"', "'"), d, "true" if e else "false", "true" if g else "false")
                           for a, b, c, d, e, g in rows))
        f.write("\n]\n\n")
        f.write("def extractionProblems : List String := [%s]\n\n" % ", ".join('"%s"' % p.replace('"', "'") for p in problems))
        f.write("end PetgraphModel.Extracted\n")
    # Csr.lean — the binary-search cut-off of Csr::find_edge_pos
    csr = open(os.path.join(REPO, "src", "csr.rs")).read()
    m = re.search(r"const\s+BINARY_SEARCH_CUTOFF\s*:\s*usize\s*=\s*(\d+)\s*;", csr)
    if not m:
        problems.append("csr.rs: BINARY_SEARCH_CUTOFF not recognised")
    with open(os.path.join(OUT, "Csr.lean"), "w") as f:
        f.write("/- GENERATED by tools/extract.py from %s/src/csr.rs on every run — do not edit.\n" % REPO)
        f.write("   `const BINARY_SEARCH_CUTOFF: usize`.  No C05 theorem depends on the value (`C05_find_pos` proves both\n")
        f.write("   search branches equal on every strictly ascending slice); the driver uses it to run the same branch as the code. -/\n")
        f.write("namespace PetgraphModel.Extracted.Csr\n\ndef cutoff : Nat := %s\n\nend PetgraphModel.Extracted.Csr\n" % (m.group(1) if m else "0"))
    print("extract: %d functions scanned, %d scratch uses, %d problems" % (nfuncs, len(rows), len(problems)))
    for p in problems:
        print("  PROBLEM:", p)
    # per-property extractors written by the vertical builders (same contract: regenerate, fail closed)
    import subprocess
    rc = 0
    for extra in sorted(glob.glob(os.path.join(ROOT, "tools", "extract_*.py"))):
        args = (["--src", os.path.join(REPO, "src", "matrix_graph.rs")] if extra.endswith("extract_matrix.py")
                else [REPO] if extra.endswith("extract_c06.py") else ["--repo", REPO])
        r = subprocess.run([sys.executable, extra] + args, stdout=subprocess.PIPE, stderr=subprocess.STDOUT, text=True)
        print(r.stdout.strip())
        rc = rc or r.returncode
    sys.exit(1 if (problems or rc) else 0)

if __name__ == "__main__":
    main()
