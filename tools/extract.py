#!/usr/bin/env python3
"""Regenerates lean/PetgraphModel/Extracted/*.lean from /repo/src (fail-closed). See DESIGN.md App. E."""
import sys
sys.exit(0)
