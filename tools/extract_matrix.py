#!/usr/bin/env python3
"""
C04 tie by regeneration (DESIGN.md Appendix E): re-derives from /repo/src/matrix_graph.rs

  matrix.flatPos      the value of `to_flat_square_matrix_position(row, column, width)`
  matrix.triPos       the value of `to_lower_triangular_matrix_position(row, column)`
  matrix.grow         the capacity `extend_flat_square_matrix` grows to when `exact` is false
                      (`cmp::max(<requested>.next_power_of_two(), MIN_CAPACITY)`), and `matrix.minCapacity`

Each function body is parsed (tools/rustexpr.py), its functional core is evaluated to ONE expression over the parameters
(single-assignment `let`s inlined, `if` as a value, the tuple-swap idiom and `cmp::max/min` unified, private helpers
inlined one level), the parameters are renamed positionally and the result is printed in canonical form (sorted sum of
sorted products; `max`/`min`/`/` opaque with canonical arguments).  So `row * width + column`, `column + width * row`,
a `let row_start = …;` in between, `x.pow(2)`/`x * x`, the tuple swap and `cmp::max`/`cmp::min` all regenerate the same
text, and `Theorems/C04.lean` (`C04_extracted_agrees`) proves that text equal to the model's definitions.

Outcomes per item: recognised / changed / unrecognised (baseline text kept, correspondence check widened) / broken
(function or constant missing: fail-closed) — see tools/tielib.py.

usage: tools/extract_matrix.py [--src FILE] [--out FILE] [--write-baseline]
"""
import sys, os
sys.path.insert(0, os.path.dirname(os.path.abspath(__file__)))
import rustexpr as R
from rustexpr import Unrecognised
from tielib import Tie, Broken, ROOT

SRC = "/repo/src/matrix_graph.rs"
OUT = os.path.join(ROOT, "lean", "PetgraphModel", "Extracted", "Matrix.lean")


def free_names(e):
    return {x[1][0] if len(x[1]) == 1 else "::".join(x[1]) for x in R.walk(e) if x[0] == "path"}


def const_env(F):
    """file-level integer constants (a constant that is a literal may be written either way)"""
    env = {}
    for name, defs in F.consts.items():
        if len(defs) == 1 and defs[0][0][0] == "num":
            env[name] = defs[0][0]
    return env


def the_fn(F, name):
    c = F.fn(name)
    if not c:
        raise Broken("function %s not found" % name)
    if len(c) > 1:
        raise Broken("%d functions named %s" % (len(c), name))
    if c[0].body is None:
        raise Unrecognised("body of %s does not parse: %s" % (name, c[0].error))
    return c[0]


def position_fn(F, name, canon):
    """canonical Lean body of a pure position function with len(canon) usize parameters"""
    f = the_fn(F, name)
    params = f.param_names()
    if len(params) != len(canon):
        raise Broken("%s has %d parameters, expected %d" % (name, len(params), len(canon)))
    if None in params:
        raise Unrecognised("parameter pattern of %s" % name)
    helpers = {g.name: g for g in F.fns if g.impl is None and g.name != name}
    v = R.Evaluator(helpers, 1).run_fn(f, [("path", ("_p%d" % i,)) for i in range(len(params))])
    v = R.subst(v, {("path", (n,)): c for n, c in const_env(F).items()})
    v = R.rename_params(v, {"_p%d" % i: c for i, c in enumerate(canon)})
    v = R.norm(v)
    extra = free_names(v) - set(canon)
    if extra:
        raise Unrecognised("%s depends on %s besides its parameters" % (name, ", ".join(sorted(extra))))
    return R.to_lean(v)


def grow_rule(F):
    """(lean text of the non-exact capacity as a function of `want`, MIN_CAPACITY)"""
    f = the_fn(F, "extend_flat_square_matrix")
    params = f.param_names()
    if len(params) != 4 or None in params:
        raise Broken("extend_flat_square_matrix: expected (node_adjacencies, old_node_capacity, new_node_capacity, exact)")
    want, exact = params[2], params[3]
    tails = []
    def visit(e, guards, loops, role):
        if role == "tail" and not guards and not loops:
            tails.append(e)
    R.walk_inlined(f.body, visit)
    lens = [c[2][1] for c, g, l, _ in R.collect_inlined(
        f.body, lambda x: x[0] == "call" and x[1][0] == "path" and x[1][1][-1] == "ensure_len" and len(x[2]) == 2) if not g and not l]
    if len(tails) != 1:
        raise Unrecognised("extend_flat_square_matrix: the returned capacity is not a single tail expression")
    cenv = {("path", (n,)): c for n, c in const_env(F).items()}
    ren = {want: "want", exact: "exact"}
    cap = R.norm(R.rename_params(R.subst(tails[0], cenv), ren))
    # the matrix is resized to cap * cap before the relocation loop
    if len(lens) != 1:
        raise Unrecognised("extend_flat_square_matrix: expected one ensure_len call before the loop, found %d" % len(lens))
    ln = R.norm(R.rename_params(R.subst(lens[0], cenv), ren))
    if ln != R.norm(("bin", "*", cap, cap)):
        raise Unrecognised("extend_flat_square_matrix: ensure_len is not called with the square of the returned capacity")
    if not (cap[0] == "ite" and cap[1] == ("path", ("exact",)) and cap[2] == ("path", ("want",))):
        raise Unrecognised("extend_flat_square_matrix: capacity is not `if exact { requested } else { … }`: %s" % R.show(cap))
    g = cap[3]
    npt = ("mcall", ("path", ("want",)), "next_power_of_two", ())
    if not (g[0] == "max" and len(g[1]) == 2 and npt in g[1]):
        raise Unrecognised("growth rule is not max(requested.next_power_of_two(), MIN_CAPACITY): %s" % R.show(g))
    other = [x for x in g[1] if x != npt][0]
    if other[0] != "num":
        raise Unrecognised("MIN_CAPACITY is not an integer constant: %s" % R.show(other))
    return other[1]


def build(src_path, write_baseline=False):
    T = Tie("extract_matrix", write_baseline)
    where = "src/matrix_graph.rs"
    try:
        F = R.parse_file(open(src_path).read())
        err = None
    except OSError as e:
        F, err = None, Broken("cannot read %s: %s" % (src_path, e))
    except Unrecognised as e:
        F, err = None, e
    def guarded(fn):
        def run():
            if err is not None:
                raise err
            return fn()
        return run
    memo = {}
    def min_cap():
        if "g" not in memo:
            try:
                memo["g"] = grow_rule(F)
            except (Unrecognised, Broken) as e:
                memo["g"] = e
        if isinstance(memo["g"], Exception):
            raise memo["g"]
        return memo["g"]
    parts = []
    parts.append(T.item("matrix.minCapacity", ["C04"], where + ":extend_flat_square_matrix",
                        guarded(lambda: "/-- `const MIN_CAPACITY: usize` -/\ndef minCapacity : Nat := %d\n" % min_cap())))
    parts.append(T.item("matrix.flatPos", ["C04"], where + ":to_flat_square_matrix_position",
                        guarded(lambda: "/-- value of `to_flat_square_matrix_position` (canonical form) -/\n"
                                        "def flatPos (row column width : Nat) : Nat := %s\n"
                                        % position_fn(F, "to_flat_square_matrix_position", ["row", "column", "width"]))))
    parts.append(T.item("matrix.triPos", ["C04"], where + ":to_lower_triangular_matrix_position",
                        guarded(lambda: "/-- value of `to_lower_triangular_matrix_position` (canonical form) -/\n"
                                        "def triPos (row column : Nat) : Nat := %s\n"
                                        % position_fn(F, "to_lower_triangular_matrix_position", ["row", "column"]))))
    parts.append(T.item("matrix.grow", ["C04"], where + ":extend_flat_square_matrix",
                        guarded(lambda: (min_cap(), "/-- capacity `extend_flat_square_matrix` grows to when `exact` is false: "
                                         "`max(requested.next_power_of_two(), MIN_CAPACITY)`;\nwith `exact` it is the requested capacity; "
                                         "the vector is resized to the square of it -/\n"
                                         "def grow (nextPowerOfTwo : Nat → Nat) (want : Nat) : Nat := max (nextPowerOfTwo want) minCapacity\n")[1])))
    text = ("-- GENERATED by tools/extract_matrix.py from /repo/src/matrix_graph.rs — do not edit.\n"
            "namespace PetgraphModel.Extracted.Matrix\n\n" + "\n".join(parts) + "\n" + T.flags_lean() +
            "\nend PetgraphModel.Extracted.Matrix\n")
    return T, text


def main():
    args = sys.argv[1:]
    src, out, wb = SRC, OUT, False
    while args:
        a = args.pop(0)
        if a == "--src": src = args.pop(0)
        elif a == "--out": out = args.pop(0)
        elif a == "--write-baseline": wb = True
        else:
            print(__doc__); return 2
    T, text = build(src, wb)
    return T.finish(out, text)


if __name__ == "__main__":
    sys.exit(main())
