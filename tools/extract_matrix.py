#!/usr/bin/env python3
"""
C04 tie by regeneration (DESIGN.md Appendix E): re-derives from /repo/src/matrix_graph.rs

  * const MIN_CAPACITY: usize = <int>;
  * the body of `to_flat_square_matrix_position(row, column, width)`
  * the body of `to_lower_triangular_matrix_position(row, column)`
    (optional `let (row, column) = if row > column { (row, column) } else { (column, row) };`)
  * the growth rule `cmp::max(<e>.next_power_of_two(), MIN_CAPACITY)`

and writes lean/PetgraphModel/Extracted/Matrix.lean.  `Theorems/C04.lean` proves that the generated
definitions are the model's (`C04_extracted_agrees`), so a changed formula breaks the build.
Fail-closed: if a fragment is not recognised the generated file contains a failing `example` naming
the fragment ("tie broken") and the exit code is 1.

usage: tools/extract_matrix.py [--src FILE] [--out FILE] [--check]   (--check: do not write, diff only)
"""
import re, sys, os

ROOT = os.path.dirname(os.path.dirname(os.path.abspath(__file__)))
SRC = "/repo/src/matrix_graph.rs"
OUT = os.path.join(ROOT, "lean", "PetgraphModel", "Extracted", "Matrix.lean")


class Broken(Exception):
    pass


# ---- a 40-line arithmetic-expression translator:  + * / ( ) identifiers integer literals -------------
TOK = re.compile(r"\s*(?:(\d+)|([A-Za-z_][A-Za-z_0-9]*)|(.))")


def tokenize(s):
    out = []
    for num, ident, op in TOK.findall(s):
        if num:
            out.append(("n", num))
        elif ident:
            out.append(("i", ident))
        elif op.strip():
            if op not in "+*/()":
                raise Broken("unsupported token %r in %r" % (op, s))
            out.append((op, op))
    return out


def parse_expr(toks, allowed):
    """returns a Lean term (fully parenthesised); grammar: e := t ('+' t)* ; t := f (('*'|'/') f)*"""
    pos = [0]

    def peek():
        return toks[pos[0]][0] if pos[0] < len(toks) else None

    def take():
        t = toks[pos[0]]
        pos[0] += 1
        return t

    def factor():
        k = peek()
        if k == "n":
            return take()[1]
        if k == "i":
            name = take()[1]
            if name not in allowed:
                raise Broken("unknown identifier %r" % name)
            return name
        if k == "(":
            take()
            e = expr()
            if peek() != ")":
                raise Broken("unbalanced parenthesis")
            take()
            return "(" + e + ")"
        raise Broken("unexpected token %r" % (k,))

    def term():
        e = factor()
        while peek() in ("*", "/"):
            op = take()[0]
            e = "(%s %s %s)" % (e, op, factor())
        return e

    def expr():
        e = term()
        while peek() == "+":
            take()
            e = "(%s + %s)" % (e, term())
        return e

    e = expr()
    if pos[0] != len(toks):
        raise Broken("trailing tokens")
    return e


def fn_body(src, name, params):
    sig = r"fn\s+%s\s*\(\s*%s\s*\)\s*->\s*usize\s*\{" % (name, r"\s*,\s*".join(r"%s\s*:\s*usize" % p for p in params))
    m = re.search(sig, src)
    if not m:
        raise Broken("signature of %s" % name)
    i = m.end()
    depth, j = 1, i
    while depth and j < len(src):
        depth += {"{": 1, "}": -1}.get(src[j], 0)
        j += 1
    return src[i:j - 1].strip()


def extract(src):
    items = {}
    m = re.search(r"const\s+MIN_CAPACITY\s*:\s*usize\s*=\s*(\d+)\s*;", src)
    if not m:
        raise Broken("const MIN_CAPACITY")
    items["min"] = m.group(1)

    body = fn_body(src, "to_flat_square_matrix_position", ["row", "column", "width"])
    items["flat"] = parse_expr(tokenize(body), {"row", "column", "width"})

    body = fn_body(src, "to_lower_triangular_matrix_position", ["row", "column"])
    swap = re.match(
        r"let\s*\(\s*row\s*,\s*column\s*\)\s*=\s*if\s+row\s*>\s*column\s*\{\s*\(\s*row\s*,\s*column\s*\)\s*\}\s*"
        r"else\s*\{\s*\(\s*column\s*,\s*row\s*\)\s*\}\s*;", body)
    if swap:
        items["tri_swap"] = True
        body = body[swap.end():].strip()
    else:
        items["tri_swap"] = False
        if "let" in body or "if" in body:
            raise Broken("shape of to_lower_triangular_matrix_position")
    items["tri"] = parse_expr(tokenize(body), {"row", "column"})

    m = re.search(r"cmp::max\(\s*([A-Za-z_][A-Za-z_0-9]*)\.next_power_of_two\(\)\s*,\s*MIN_CAPACITY\s*\)", src)
    if not m:
        raise Broken("growth rule cmp::max(_.next_power_of_two(), MIN_CAPACITY)")
    items["grow_arg"] = m.group(1)
    # the rule must be applied to the requested capacity of extend_flat_square_matrix, in its non-exact branch
    if not re.search(r"let\s+new_node_capacity\s*=\s*if\s+exact\s*\{\s*new_node_capacity\s*\}\s*else\s*\{[^}]*cmp::max\(\s*new_node_capacity\.next_power_of_two\(\)",
                     src, re.S):
        raise Broken("growth rule is not `if exact { new_node_capacity } else { max(next_power_of_two, MIN_CAPACITY) }`")
    return items


def render(items):
    tri = items["tri"]
    if items["tri_swap"]:
        tri_def = ("def triPos (row column : Nat) : Nat :=\n"
                   "  let rc : Nat × Nat := if row > column then (row, column) else (column, row)\n"
                   "  (fun (row column : Nat) => %s) rc.1 rc.2\n" % tri)
    else:
        tri_def = "def triPos (row column : Nat) : Nat := %s\n" % tri
    return ("-- GENERATED by tools/extract_matrix.py from /repo/src/matrix_graph.rs — do not edit.\n"
            "namespace PetgraphModel.Extracted.Matrix\n\n"
            "/-- `const MIN_CAPACITY: usize` -/\n"
            "def minCapacity : Nat := %s\n\n"
            "/-- body of `to_flat_square_matrix_position` -/\n"
            "def flatPos (row column width : Nat) : Nat := %s\n\n"
            "/-- body of `to_lower_triangular_matrix_position` -/\n"
            "%s\n"
            "/-- `cmp::max(new_node_capacity.next_power_of_two(), MIN_CAPACITY)` (non-exact branch) -/\n"
            "def grow (nextPowerOfTwo : Nat → Nat) (want : Nat) : Nat := max (nextPowerOfTwo want) minCapacity\n\n"
            "end PetgraphModel.Extracted.Matrix\n") % (items["min"], items["flat"], tri_def)


def render_broken(why):
    return ("-- GENERATED by tools/extract_matrix.py — TIE BROKEN: %s\n"
            "namespace PetgraphModel.Extracted.Matrix\n"
            "/-- the extractor no longer recognises the source: %s -/\n"
            "example : (0 : Nat) = 1 := rfl\n"
            "end PetgraphModel.Extracted.Matrix\n") % (why, why)


def main():
    args = sys.argv[1:]
    src, out, check = SRC, OUT, False
    while args:
        a = args.pop(0)
        if a == "--src":
            src = args.pop(0)
        elif a == "--out":
            out = args.pop(0)
        elif a == "--check":
            check = True
        else:
            print(__doc__)
            return 2
    try:
        text = render(extract(open(src).read()))
        rc = 0
    except Broken as e:
        text = render_broken(str(e))
        rc = 1
        print("extract_matrix: tie broken:", e)
    old = open(out).read() if os.path.exists(out) else None
    if check:
        print("extract_matrix: %s" % ("unchanged" if old == text else "DIFFERS from " + out))
        return rc if old == text else 1
    if old != text:
        os.makedirs(os.path.dirname(out), exist_ok=True)
        with open(out, "w") as f:
            f.write(text)
        print("extract_matrix: wrote", out)
    else:
        print("extract_matrix: unchanged")
    return rc


if __name__ == "__main__":
    sys.exit(main())
