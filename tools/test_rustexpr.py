#!/usr/bin/env python3
"""self-test of tools/rustexpr.py: spellings that must regenerate the SAME canonical form, and changes that must not.
usage: python3 tools/test_rustexpr.py        (exit 0 = all good)"""
import os, sys
sys.path.insert(0, os.path.dirname(os.path.abspath(__file__)))
import rustexpr as R

def fn_value(src, helpers_src=""):
    F = R.parse_file(helpers_src + "\n" + src)
    f = F.fns[-1]
    assert f.body is not None, f.error
    helpers = {g.name: g for g in F.fns[:-1]}
    names = f.param_names()
    v = R.Evaluator(helpers, 1).run_fn(f, [("path", ("_p%d" % i,)) for i in range(len(names))])
    return R.norm(v)

SAME = [
    # commutative / associative / distributive arithmetic, lets, renamed parameters
    ["fn f(row: usize, column: usize, width: usize) -> usize { row * width + column }",
     "fn f(r: usize, c: usize, w: usize) -> usize { c + w * r }",
     "fn f(row: usize, column: usize, width: usize) -> usize { let row_start = row * width; row_start + column }",
     "fn f(a: usize, b: usize, n: usize) -> usize { let (x, y) = (a, b); return y + x * n; }",
     "fn f(a: usize, b: usize, n: usize) -> usize { g(n, a, b) }"],
    # pow / product, shifts
    ["fn f(n: usize) -> usize { n.pow(2) }", "fn f(cap: usize) -> usize { cap * cap }", "fn f(n: usize) -> usize { let m = n; m * n }"],
    ["fn f(v: usize, b: usize) -> usize { 2 * v + b }", "fn f(v: usize, b: usize) -> usize { b + (v << 1) }"],
    # (x + 1) * x / 2, tuple swap vs max/min
    ["fn f(row: usize, column: usize) -> usize { let (row, column) = if row > column { (row, column) } else { (column, row) }; (row * (row + 1)) / 2 + column }",
     "fn f(r: usize, c: usize) -> usize { let hi = cmp::max(r, c); let lo = cmp::min(r, c); (hi * (hi + 1)) / 2 + lo }",
     "fn f(r: usize, c: usize) -> usize { let major = r.max(c); let minor = c.min(r); let start = (major * major + major) / 2; start + minor }",
     "fn f(r: usize, c: usize) -> usize { let (hi, lo) = if c <= r { (r, c) } else { (c, r) }; lo + ((1 + hi) * hi) / 2 }"],
    # guards: early return / if-else chain / reversed comparison
    ["fn f(n: usize) -> usize { if n < 63 { return 1; } if n > 100 { panic!(\"no\") } 2 }",
     "fn f(n: usize) -> usize { if n < 63 { 1 } else if n <= 100 { 2 } else { panic!(\"no\") } }",
     "fn f(order: usize) -> usize { let r = if 63 > order { 1 } else if !(order > 100) { 2 } else { unreachable!() }; r }"],
    # bool to integer
    ["fn f(a: usize, b: usize) -> usize { usize::from(a < b) }", "fn f(a: usize, b: usize) -> usize { if a < b { 1 } else { 0 } }",
     "fn f(x: usize, y: usize) -> usize { (y > x) as usize }"],
    # Option handling
    ["fn f(o: Option<usize>) -> usize { o.map_or(0, |i| i + 1) }", "fn f(o: Option<usize>) -> usize { match o { Some(last) => last + 1, None => 0 } }",
     "fn f(o: Option<usize>) -> usize { if let Some(x) = o { 1 + x } else { 0 } }", "fn f(o: Option<usize>) -> usize { match o { None => 0, Some(k) => k + 1 } }"],
    # vec building
    ["fn f(n: usize) -> Vec<usize> { let t = vec![(n, 6), (7, 18)]; t.iter().flat_map(|&(a, k)| nb(a, k)).collect() }",
     "fn f(n: usize) -> Vec<usize> { let mut bits = nb(n, 6); bits.extend(nb(7, 18)); bits }",
     "fn f(n: usize) -> Vec<usize> { let mut v = Vec::new(); v.append(&mut nb(n, 6)); v.append(&mut nb(7, 18)); v }"],
]
HELPERS = "fn g(width: usize, row: usize, col: usize) -> usize { col + row * width }\n"

DIFFERENT = [
    ("fn f(row: usize, column: usize, width: usize) -> usize { row * width + column }",
     "fn f(row: usize, column: usize, width: usize) -> usize { column * width + row }"),
    ("fn f(r: usize, c: usize) -> usize { let hi = cmp::max(r, c); let lo = cmp::min(r, c); (hi * (hi + 1)) / 2 + lo }",
     "fn f(r: usize, c: usize) -> usize { let hi = cmp::min(r, c); let lo = cmp::max(r, c); (hi * (hi + 1)) / 2 + lo }"),
    ("fn f(r: usize, c: usize) -> usize { (r * (r + 1)) / 2 + c }", "fn f(r: usize, c: usize) -> usize { (r * r) / 2 + c }"),
    ("fn f(n: usize) -> usize { if n < 63 { 1 } else if n <= 100 { 2 } else { panic!() } }",
     "fn f(n: usize) -> usize { if n < 63 { 1 } else if n < 100 { 2 } else { panic!() } }"),
    ("fn f(n: usize) -> usize { n - 1 }", "fn f(n: usize) -> usize { n }"),
    ("fn f(a: usize, b: usize) -> usize { a / b }", "fn f(a: usize, b: usize) -> usize { b / a }"),
    ("fn f(v: usize, b: usize) -> usize { (v << 1) | b }", "fn f(v: usize, b: usize) -> usize { (v << 2) | b }"),
]

def main():
    bad = 0
    for group in SAME:
        vals = [fn_value(s, HELPERS) for s in group]
        for s, v in zip(group[1:], vals[1:]):
            if v != vals[0]:
                bad += 1
                print("NOT EQUAL:\n  %s\n  %s\n  -> %s\n  -> %s" % (group[0], s, R.show(vals[0]), R.show(v)))
    for a, b in DIFFERENT:
        if fn_value(a) == fn_value(b):
            bad += 1
            print("EQUAL BUT MUST DIFFER:\n  %s\n  %s" % (a, b))
    # identifiers that spell node tags must not confuse the tree walkers
    v = fn_value("fn f(index: usize, list: usize, max: usize) -> usize { let call = index + list; call * max }")
    if v != fn_value("fn f(a: usize, b: usize, c: usize) -> usize { c * (b + a) }"):
        bad += 1; print("tag-named identifiers")
    print("rustexpr self-test: %d groups, %d pairs, %s" % (len(SAME), len(DIFFERENT), "OK" if not bad else "%d FAILURES" % bad))
    return 1 if bad else 0

if __name__ == "__main__":
    sys.exit(main())
