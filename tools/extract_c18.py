#!/usr/bin/env python3
"""
C18 extraction (DESIGN.md Appendix E): re-derives from /repo/src the constants of the graph6 codec and the
tables of `Dot` (the `Escaper::write_char` match arms, TYPE, EDGE, INDENT, the rankdir values) and writes
lean/PetgraphModel/Extracted/C18.lean.  `Theorems/C18.lean` proves that these generated definitions
coincide with the hand-written mirror model the other theorems are about, so a change of the source that
alters one of them breaks a proof on the next `lake build`.

Fail-closed: a source shape that is not recognised produces a file whose build fails, and exit code 1.

usage: tools/extract_c18.py [--repo /repo] [--out <file>]
"""
import os, re, sys

ROOT = os.path.dirname(os.path.dirname(os.path.abspath(__file__)))


class Unrecognised(Exception):
    pass


def need(pattern, text, what, flags=0):
    m = re.search(pattern, text, flags)
    if not m:
        raise Unrecognised(what)
    return m


def rust_unescape(body, what):
    """characters of the inside of a Rust char or string literal (the escapes Dot's tables use)"""
    out, i = [], 0
    while i < len(body):
        c = body[i]
        if c == "\\":
            if i + 1 >= len(body):
                raise Unrecognised(what + ": dangling backslash")
            e = body[i + 1]
            table = {"n": "\n", "t": "\t", "r": "\r", "\\": "\\", "'": "'", '"': '"', "0": "\0"}
            if e not in table:
                raise Unrecognised(what + ": escape \\" + e)
            out.append(table[e])
            i += 2
        else:
            out.append(c)
            i += 1
    return out


def lean_char(c):
    esc = {"\n": "\\n", "\t": "\\t", "\r": "\\r", "\\": "\\\\", "'": "\\'", '"': '\\"'}
    if c in esc:
        return "'" + esc[c] + "'"
    if 32 <= ord(c) < 127:
        return "'" + c + "'"
    return "(Char.ofNat %d)" % ord(c)


def lean_chars(cs):
    return "[" + ", ".join(lean_char(c) for c in cs) + "]"


def extract(repo):
    enc = open(os.path.join(repo, "src/graph6/graph6_encoder.rs")).read()
    dec = open(os.path.join(repo, "src/graph6/graph6_decoder.rs")).read()
    dot = open(os.path.join(repo, "src/dot/mod.rs")).read()
    d = {}

    # ---- graph6 encoder
    d["encN"] = int(need(r"const N: usize = (\d+);", enc, "encoder: const N").group(1))
    m = need(
        r"fn get_graph_order_as_bits\(order: usize\) -> Vec<usize> \{\s*"
        r"let to_convert_to_bits = if order < N \{\s*vec!\[\(order, (\d+)\)\]\s*"
        r"\} else if order <= (\d+) \{\s*vec!\[\(N, (\d+)\), \(order, (\d+)\)\]\s*"
        r"\} else \{\s*panic!\(",
        enc, "encoder: get_graph_order_as_bits")
    d["shortBits"], d["maxOrder"], d["markerBits"], d["longBits"] = (int(x) for x in m.groups())
    m = need(r"while bits\.len\(\) % (\d+) != 0 \{\s*bits\.push\((\d+)\);", enc, "encoder: padding loop")
    d["encGroup"], d["padBit"] = int(m.group(1)), int(m.group(2))
    d["encChunk"] = int(need(r"\.chunks\((\d+)\)", enc, "encoder: chunks").group(1))
    need(r"char::from\(\(N \+ byte\.unwrap\(\)\) as u8\)", enc, "encoder: N + byte")
    need(r"for i in \(0\.\.bits_length\)\.rev\(\) \{\s*bits\.push\(\(n >> i\) & 1\);", enc, "encoder: get_number_as_bits")
    need(r"for i in 1\.\.=n \{\s*let is_adjacent: bool =\s*graph\.is_adjacent\(&adj_matrix, node_ids_vec\[i - 1\], node_ids_vec\[n\]\);",
         enc, "encoder: upper triangle loop")

    # ---- graph6 decoder
    d["decN"] = int(need(r"const N: usize = (\d+);", dec, "decoder: const N").group(1))
    need(r"\.map\(\|c\| \(c as usize\) - N\)", dec, "decoder: c - N")
    m = need(
        r"if first_byte == N \{\s*order_bytes\.extend_from_slice\(&bytes\[(\d+)\.\.=(\d+)\]\);\s*"
        r"adj_matrix_bytes\.extend_from_slice\(&bytes\[(\d+)\.\.\]\);\s*"
        r"\} else \{\s*order_bytes\.push\(first_byte\);\s*adj_matrix_bytes\.extend_from_slice\(&bytes\[(\d+)\.\.\]\);",
        dec, "decoder: header split")
    d["longFrom"], d["longTo"], d["longBody"], d["shortBody"] = (int(x) for x in m.groups())
    d["decGroup"] = int(need(r"flat_map\(\|&byte\| get_number_as_bits\(byte, (\d+)\)\)", dec, "decoder: bits per byte").group(1))
    need(r"for col in 1\.\.order \{\s*for lin in 0\.\.col \{\s*let is_adjacent = adj_matrix_bits\[i\] == 1;", dec,
         "decoder: column-major loops")
    need(r"edges\.push\(\(Ix::new\(lin\), Ix::new\(col\)\)\);", dec, "decoder: edge orientation")

    # ---- Dot tables
    m = need(r'static TYPE: \[&str; 2\] = \["([^"]*)", "([^"]*)"\];', dot, "dot: TYPE")
    d["TYPE"] = (m.group(1), m.group(2))
    m = need(r'static EDGE: \[&str; 2\] = \["([^"]*)", "([^"]*)"\];', dot, "dot: EDGE")
    d["EDGE"] = (m.group(1), m.group(2))
    d["INDENT"] = need(r'static INDENT: &str = "([^"]*)";', dot, "dot: INDENT").group(1)
    rd = re.findall(r'RankDir::(\w+) => "(\w+)",', dot)
    if [k for k, _ in rd] != ["TB", "BT", "LR", "RL"]:
        raise Unrecognised("dot: rankdir values")
    d["rankdir"] = rd

    # ---- Escaper::write_char
    m = need(r"fn write_char\(&mut self, c: char\) -> fmt::Result \{\s*match c \{(.*?)\n        \}\s*self\.0\.write_char\(c\)\s*\}",
             dot, "dot: Escaper::write_char", re.S)
    arms = []
    body = re.sub(r"//[^\n]*", "", m.group(1))
    for line in [l.strip() for l in body.split("\n") if l.strip()]:
        pa = re.fullmatch(r"((?:'(?:\\.|[^'\\])'\s*\|\s*)*'(?:\\.|[^'\\])')\s*=>\s*self\.0\.write_char\('((?:\\.|[^'\\]))'\)\?,", line)
        ra = re.fullmatch(r"((?:'(?:\\.|[^'\\])'\s*\|\s*)*'(?:\\.|[^'\\])')\s*=>\s*return self\.0\.write_str\(\"((?:\\.|[^\"\\])*)\"\),", line)
        if pa:
            pats = [rust_unescape(x, "escaper arm")[0] for x in re.findall(r"'((?:\\.|[^'\\]))'", pa.group(1))]
            arms.append(("prefix", pats, rust_unescape(pa.group(2), "escaper prefix")))
        elif ra:
            pats = [rust_unescape(x, "escaper arm")[0] for x in re.findall(r"'((?:\\.|[^'\\]))'", ra.group(1))]
            arms.append(("replace", pats, rust_unescape(ra.group(2), "escaper replacement")))
        elif line == "_ => {}":
            arms.append(("default", [], []))
        else:
            raise Unrecognised("dot: escaper arm `%s`" % line)
    if not arms or arms[-1][0] != "default" or any(a[0] == "default" for a in arms[:-1]):
        raise Unrecognised("dot: escaper default arm")
    d["arms"] = arms[:-1]

    # ---- the label / statement literals of graph_fmt
    need(r'writeln!\(f, "\{\} \{\{", TYPE\[g\.is_directed\(\) as usize\]\)\?;', dot, "dot: header")
    need(r'writeln!\(f, "\{\}rankdir=\\"\{\}\\"", INDENT, value\)\?;', dot, "dot: rankdir line")
    need(r'write!\(f, "\{\}\{\} \[ ", INDENT, g\.to_index\(node\.id\(\)\),\)\?;', dot, "dot: node line")
    if len(re.findall(r'write!\(f, "label = \\""\)\?;', dot)) != 2 or len(re.findall(r'write!\(f, "\\" "\)\?;', dot)) != 2:
        raise Unrecognised("dot: label delimiters")
    need(r'"\{\}\{\} \{\} \{\} \[ ",\s*INDENT,\s*g\.to_index\(edge\.source\(\)\),\s*EDGE\[g\.is_directed\(\) as usize\],\s*g\.to_index\(edge\.target\(\)\),',
         dot, "dot: edge line")
    need(r'writeln!\(f, "\}\}"\)\?;', dot, "dot: footer")
    need(r'if f\.alternate\(\) \{\s*writeln!\(&mut Escaper\(f\), "\{:#\}", &self\.0\)\s*\} else \{\s*write!\(&mut Escaper\(f\), "\{\}", &self\.0\)',
         dot, "dot: Escaped::fmt")
    return d


def render(d):
    L = []
    L.append("/-")
    L.append("GENERATED by tools/extract_c18.py from /repo/src/graph6/graph6_encoder.rs, graph6_decoder.rs and")
    L.append("/repo/src/dot/mod.rs — do not edit.  Constants and tables as the source states them; `Theorems/C18.lean`")
    L.append("proves them equal to the definitions of the mirror models.")
    L.append("-/")
    L.append("namespace PetgraphModel.Extracted.C18")
    L.append("")
    for k in ["encN", "decN", "maxOrder", "shortBits", "markerBits", "longBits", "encGroup", "encChunk", "decGroup",
              "padBit", "longFrom", "longTo", "longBody", "shortBody"]:
        L.append("def %s : Nat := %d" % (k, d[k]))
    L.append("")
    L.append("/-- `TYPE[directed as usize]` -/")
    L.append("def TYPE (directed : Bool) : List Char :=\n  if directed then %s else %s" % (lean_chars(d["TYPE"][1]), lean_chars(d["TYPE"][0])))
    L.append("/-- `EDGE[directed as usize]` -/")
    L.append("def EDGE (directed : Bool) : List Char :=\n  if directed then %s else %s" % (lean_chars(d["EDGE"][1]), lean_chars(d["EDGE"][0])))
    L.append("def INDENT : List Char := %s" % lean_chars(d["INDENT"]))
    L.append("def rankdirValues : List (List Char) := [%s]" % ", ".join(lean_chars(v) for _, v in d["rankdir"]))
    L.append("")
    L.append("/-- the arms of `Escaper::write_char`, in source order -/")
    L.append("def escapeChar (c : Char) : List Char :=")
    first = True
    for kind, pats, payload in d["arms"]:
        cond = " ∨ ".join("c = %s" % lean_char(p) for p in pats)
        if kind == "prefix":
            rhs = "[" + ", ".join([lean_char(x) for x in payload] + ["c"]) + "]"
        else:
            rhs = lean_chars(payload)
        L.append("  %sif %s then %s" % ("" if first else "else ", cond, rhs))
        first = False
    L.append("  %s[c]" % ("" if first else "else "))
    L.append("")
    L.append("end PetgraphModel.Extracted.C18")
    return "\n".join(L) + "\n"


def main():
    repo, out = "/repo", os.path.join(ROOT, "lean", "PetgraphModel", "Extracted", "C18.lean")
    a = sys.argv[1:]
    while a:
        if a[0] == "--repo":
            repo = a[1]; a = a[2:]
        elif a[0] == "--out":
            out = a[1]; a = a[2:]
        else:
            print(__doc__); sys.exit(2)
    try:
        text = render(extract(repo))
        rc = 0
    except Unrecognised as e:
        text = ("/- GENERATED by tools/extract_c18.py: the tie to the source is BROKEN -/\n"
                "namespace PetgraphModel.Extracted.C18\n"
                "-- unrecognised source shape: %s\n"
                "example : (0 : Nat) = 1 := by decide\n"
                "end PetgraphModel.Extracted.C18\n" % str(e).replace("\n", " "))
        print("extract_c18: tie broken:", e)
        rc = 1
    old = open(out).read() if os.path.exists(out) else None
    if old != text:
        os.makedirs(os.path.dirname(out), exist_ok=True)
        with open(out, "w") as f:
            f.write(text)
    if rc == 0:
        print("extract_c18: ok (%s)" % ("unchanged" if old == text else "rewritten"))
    sys.exit(rc)


if __name__ == "__main__":
    main()
