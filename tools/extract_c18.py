#!/usr/bin/env python3
"""
C18 extraction (DESIGN.md Appendix E): re-derives from /repo/src the constants of the graph6 codec and the
tables of `Dot` (the `Escaper::write_char` match arms, TYPE, EDGE, INDENT, the rankdir values) and writes
lean/PetgraphModel/Extracted/C18.lean.  `Theorems/C18.lean` proves that these generated definitions
coincide with the hand-written mirror model the other theorems are about, so a change of the source that
alters one of them breaks a proof on the next `lake build`.

graph6 (parsed with tools/rustexpr.py, one item per helper function):
  g6.encN / g6.decN        `const N: usize`
  g6.orderBits, g6.maxOrder   `get_graph_order_as_bits` evaluated to a decision list, generated as a Lean function
                               order < 63  -> nb order 6
                               order <= M  -> nb 63 6 ++ nb order 18       else none (panic)
                           (the `(value, width)` table + flat_map, direct calls with `extend`, early `return`, the guard
                           written as `order > M { panic }` all evaluate to the same list)
  g6.padding               `while bits.len() % K != 0 { bits.push(P) }`  or  `bits.resize((bits.len() + K-1) / K * K, P)`
  g6.chunk                 `.chunks(K)`
  g6.encByte               `char::from((N + value) as u8)`; the value of a chunk is its big-endian base-2 number
                           (`from_str_radix(_, 2)` of the joined digits, `fold(0, |v, &b| 2 * v + b)`, `(v << 1) | b`)
  g6.encNumberBits / g6.decNumberBits   `(n >> i) & 1` for `i` in `(0..bits_length).rev()` (loop + push, or map + collect)
  g6.upperTriangle         column-major walk over the strict upper triangle: for every node, one `is_adjacent(earlier, node)`
                           per earlier node in iteration order (index loop over the collected ids, loop over the list of
                           nodes seen so far, or `enumerate` + slice `[..col]`)
  g6.decOffset             `(c as usize) - N`
  g6.decHeader             `get_order_bytes_and_adj_matrix_bytes` evaluated: first == N -> (bytes[a..=b], bytes[c..]) else
                           ([first], bytes[d..])
  g6.decGroup              `get_number_as_bits(byte, K)` in `bytes_vector_to_bits_vector`
  g6.decEdges              `for col in 1..order { for row in 0..col { if bits[i] == 1 { push((Ix::new(row), Ix::new(col))) } i += 1 } }`
Dot (regular expressions on src/dot/mod.rs, one item each): dot.TYPE dot.EDGE dot.INDENT dot.rankdir dot.escaper dot.literals

Outcomes per item: recognised / changed / unrecognised (baseline kept, correspondence search widened) / broken
(file or function missing: fail-closed) — tools/tielib.py.

usage: tools/extract_c18.py [--repo /repo] [--out <file>] [--write-baseline]
"""
import os, re, sys
sys.path.insert(0, os.path.dirname(os.path.abspath(__file__)))
import rustexpr as R
from rustexpr import Unrecognised
from tielib import Tie, Broken, ROOT

P = lambda *segs: ("path", tuple(segs))
NUM = lambda n: ("num", n)


def need(pattern, text, what, flags=0):
    m = re.search(pattern, text, flags)
    if not m:
        raise Unrecognised(what)
    return m


def lean_char(c):
    esc = {"\n": "\\n", "\t": "\\t", "\r": "\\r", "\\": "\\\\", "'": "\\'", '"': '\\"'}
    if c in esc:
        return "'" + esc[c] + "'"
    if 32 <= ord(c) < 127:
        return "'" + c + "'"
    return "(Char.ofNat %d)" % ord(c)


def lean_chars(cs):
    return "[" + ", ".join(lean_char(c) for c in cs) + "]"


def defs(**kv):
    return "".join("def %s : Nat := %d\n" % (k, v) for k, v in kv.items())


# ------------------------------------------------------------------------------------------------------------------
# graph6

class G6:
    def __init__(self, path, label):
        self.label = label
        try:
            self.src = open(path).read()
        except OSError as e:
            self.err = Broken("cannot read %s: %s" % (path, e)); return
        try:
            self.F = R.parse_file(self.src)
            self.err = None
        except Unrecognised as e:
            self.err = e

    def fn(self, name):
        if self.err: raise self.err
        c = self.F.fn(name)
        if not c: raise Broken("%s: function %s not found" % (self.label, name))
        if len(c) > 1: raise Broken("%s: %d functions named %s" % (self.label, len(c), name))
        if c[0].body is None: raise Unrecognised("%s: body of %s does not parse: %s" % (self.label, name, c[0].error))
        return c[0]

    def constN(self):
        if self.err: raise self.err
        d = self.F.consts.get("N", [])
        d = [x for x in d if x[1] is None]
        if len(d) != 1 or d[0][0][0] != "num":
            raise Unrecognised("%s: `const N: usize = <int>;` not found" % self.label)
        return d[0][0][1]

    def with_consts(self, e):
        m = {}
        for name, ds in self.F.consts.items():
            if len(ds) == 1 and ds[0][0][0] == "num":
                m[P(name)] = ds[0][0]
        return R.subst(e, m)


def nb_call(e):
    """get_number_as_bits(v, k) -> (v, k)"""
    if e[0] == "call" and e[1] == P("get_number_as_bits") and len(e[2]) == 2 and e[2][1][0] == "num":
        return e[2][0], e[2][1][1]
    raise Unrecognised("expected get_number_as_bits(value, <int>), found %s" % R.show(e))


def order_decision(enc):
    f = enc.fn("get_graph_order_as_bits")
    params = f.param_names()
    if len(params) != 1 or params[0] is None: raise Broken("get_graph_order_as_bits: parameters")
    v = R.Evaluator({}, 0).run_fn(f, [P("order")])
    return R.norm(enc.with_consts(v))


def order_bits(enc):
    """the decision list as a Lean function of (nb = get_number_as_bits, order); `none` = panic"""
    v = order_decision(enc)
    def value(e):
        free = {x for x in R.walk(e) if x[0] == "path"}
        if free - {P("order")}: raise Unrecognised("get_graph_order_as_bits: value depends on %s" % R.show(sorted(free - {P("order")})[0]))
        s = R.to_lean(e)
        return s if re.fullmatch(r"\w+", s) else "(" + s + ")"
    def bits(e):
        parts = e[1] if e[0] == "concat" else (e,)
        out = []
        for p in parts:
            val, k = nb_call(p)
            out.append("nb %s %d" % (value(val), k))
        return " ++ ".join(out)
    def cond(c):
        if c[0] == "cmp" and c[1] in ("<", "<=", "==") and {x for x in R.walk(c) if x[0] == "path"} <= {P("order")}:
            return "%s %s %s" % (value(c[2]), {"<": "<", "<=": "≤", "==": "="}[c[1]], value(c[3]))
        raise Unrecognised("get_graph_order_as_bits: condition %s" % R.show(c))
    lines = []
    def rec(e, first):
        if e[0] == "ite":
            lines.append("  %sif %s then %s" % ("" if first else "else ", cond(e[1]), leaf(e[2])))
            rec(e[3], False)
        else:
            lines.append("  %s%s" % ("" if first else "else ", leaf(e)))
    def leaf(e):
        if e == R.PANIC: return "none"
        if e[0] == "ite": raise Unrecognised("get_graph_order_as_bits: nested case distinction")
        return "some (%s)" % bits(e)
    if v[0] != "ite": raise Unrecognised("get_graph_order_as_bits: not a case distinction on the order")
    rec(v, True)
    return ("/-- `get_graph_order_as_bits` as a decision list (`nb` = `get_number_as_bits`, `none` = panic) -/\n"
            "def orderBits (nb : Nat → Nat → List Bool) (order : Nat) : Option (List Bool) :=\n" + "\n".join(lines) + "\n")


def max_order(enc):
    """the largest supported order: the last condition `order <= M` before the panic branch"""
    v = order_decision(enc)
    last = None
    while v[0] == "ite":
        last, v = v, v[3]
    if v != R.PANIC or last is None: raise Unrecognised("get_graph_order_as_bits: the last branch is not the panic")
    c = last[1]
    if c[0] == "cmp" and c[1] == "<=" and c[2] == P("order") and c[3][0] == "num": return defs(maxOrder=c[3][1])
    if c[0] == "cmp" and c[1] == "<" and c[2] == P("order") and c[3][0] == "num" and c[3][1] > 0: return defs(maxOrder=c[3][1] - 1)
    raise Unrecognised("get_graph_order_as_bits: the guard of the panic is not a bound on the order")


def padding(enc):
    f = enc.fn("bits_to_ascii")
    bits = f.param_names()[0]
    ln = R.norm(("mcall", P(bits), "len", ()))
    found = []
    for c, guards, loops, _ in R.collect_inlined(f.body, lambda x: x[0] == "mcall" and x[1] == P(bits) and x[2] == "push" and len(x[3]) == 1):
        if len(loops) == 1 and loops[0][1][0] == "while" and not guards:
            cv = R.norm(enc.with_consts(loops[0][1][1]))
            pv = R.norm(c[3][0])
            if cv[0] == "cmp" and cv[1] == "!=" and cv[3] == NUM(0) and cv[2][0] == "mod" and cv[2][1] == ln and cv[2][2][0] == "num" and pv[0] == "num":
                found.append((cv[2][2][1], pv[1])); continue
        raise Unrecognised("bits_to_ascii: a push that is not the padding loop")
    for c, guards, loops, _ in R.collect_inlined(f.body, lambda x: x[0] == "mcall" and x[1] == P(bits) and x[2] == "resize" and len(x[3]) == 2):
        if guards or loops: raise Unrecognised("bits_to_ascii: conditional resize")
        tv, pv = R.norm(enc.with_consts(c[3][0])), R.norm(c[3][1])
        ds = [x for x in R.walk(tv) if x[0] == "div" and x[2][0] == "num"]
        if len(ds) != 1 or pv[0] != "num": raise Unrecognised("bits_to_ascii: resize target")
        k = ds[0][2][1]
        want = R.norm(("bin", "*", ("bin", "/", ("bin", "+", ln, NUM(k - 1)), NUM(k)), NUM(k)))
        if tv != want: raise Unrecognised("bits_to_ascii: resize target is not the length rounded up to a multiple of %d" % k)
        found.append((k, pv[1]))
    if len(found) != 1: raise Unrecognised("bits_to_ascii: expected one padding step, found %d" % len(found))
    return defs(encGroup=found[0][0], padBit=found[0][1])


def chunk(enc):
    f = enc.fn("bits_to_ascii")
    cs = R.find(f.body, lambda x: x[0] == "mcall" and x[2] in ("chunks", "chunks_exact") and len(x[3]) == 1)
    if len(cs) != 1: raise Unrecognised("bits_to_ascii: expected one `.chunks(K)`, found %d" % len(cs))
    k = R.norm(enc.with_consts(cs[0][3][0]))
    if k[0] != "num": raise Unrecognised("bits_to_ascii: chunk width is not a constant")
    return defs(encChunk=k[1])


def enc_byte(enc):
    f = enc.fn("bits_to_ascii")
    n = enc.constN()
    offs, radix = [], []
    for c, _, _, _ in R.collect_inlined(f.body, lambda x: x[0] == "call" and x[1] == P("char", "from") and len(x[2]) == 1):
        a = c[2][0]
        if a[0] != "cast" or a[2] != "u8": raise Unrecognised("bits_to_ascii: char::from of something that is not `(..) as u8`")
        p = R.as_poly(R.norm(enc.with_consts(a[1])))
        if sorted(len(m) for m in p) != [0, 1] or any(c_ != 1 for m, c_ in p.items() if m):
            raise Unrecognised("bits_to_ascii: the character is not `<constant> + <chunk value>`: %s" % R.show(R.mk_poly(p)))
        offs.append(p[()])
    offs = sorted(set(offs))
    for c, _, _, _ in R.collect_inlined(f.body, lambda x: x[0] == "call" and x[1][0] == "path" and x[1][1][-1] == "from_str_radix" and len(x[2]) == 2):
        r = R.norm(c[2][1])
        if r[0] != "num": raise Unrecognised("bits_to_ascii: radix")
        radix.append(r[1])
    for c, _, _, _ in R.collect_inlined(f.body, lambda x: x[0] == "mcall" and x[2] == "fold" and len(x[3]) == 2 and x[3][1][0] == "closure" and len(x[3][1][1]) == 2):
        init = R.norm(c[3][0])
        cl = R.norm(c[3][1])
        acc, bit = P("_b0"), P("_b1")
        body = cl[2]
        if init[0] == "cast": init = init[1]
        # `k * acc + bit`, or `(acc << s) | bit` (= 2^s * acc + bit for a 0/1 bit)
        lin = body[1][0] if (body[0] == "bor" and len(body[1]) == 2 and body[1][0] == bit) else None
        p = R.as_poly(body[1][1]) if lin is not None else R.as_poly(body)
        k = p.get((acc,), 0)
        ok = init == NUM(0) and k >= 1 and ((lin is not None and set(p) == {(acc,)} and k & (k - 1) == 0) or
                                            (lin is None and set(p) == {(acc,), (bit,)} and p[(bit,)] == 1))
        if not ok: raise Unrecognised("bits_to_ascii: fold is not a big-endian positional value: %s" % R.show(body))
        radix.append(k)
    radix = sorted(set(radix))
    if len(offs) != 1: raise Unrecognised("bits_to_ascii: expected one char::from, found %d" % len(offs))
    if len(radix) != 1: raise Unrecognised("bits_to_ascii: how a chunk becomes a number is not recognised")
    return defs(encOffset=offs[0], encRadix=radix[0])


def number_bits(g, defname):
    """get_number_as_bits(n, bits_length) = `(n >> i) & 1` for i over `(0..bits_length).rev()` (most significant bit first) or
    over `0..bits_length` (least significant first): generates the order as a Bool"""
    f = g.fn("get_number_as_bits")
    ps = f.param_names()
    if len(ps) != 2 or None in ps: raise Broken("get_number_as_bits: parameters")
    n, k = P(ps[0]), P(ps[1])
    msb_iter = R.norm(("mcall", ("range", NUM(0), k, False), "rev", ()))
    lsb_iter = R.norm(("range", NUM(0), k, False))
    def order_of(it):
        it = R.norm(it)
        return "msb" if it == msb_iter else "lsb" if it == lsb_iter else None
    def elem_ok(e, i):
        e = R.norm(e)
        while e[0] == "cast": e = e[1]
        return e == R.norm(("bin", "&", ("bin", ">>", n, P(i)), NUM(1)))
    hits = []
    for c, guards, loops, _ in R.collect_inlined(f.body, lambda x: x[0] == "mcall" and x[2] == "push" and len(x[3]) == 1):
        if len(loops) == 1 and not guards and loops[0][0][0] == "pid" and order_of(loops[0][1]) and elem_ok(c[3][0], loops[0][0][1]):
            hits.append(order_of(loops[0][1]))
        else:
            raise Unrecognised("get_number_as_bits: push outside the expected loop")
    for c, guards, loops, _ in R.collect_inlined(f.body, lambda x: x[0] == "mcall" and x[2] == "map" and len(x[3]) == 1 and x[3][0][0] == "closure"):
        cl = c[3][0]
        if order_of(c[1]) and len(cl[1]) == 1 and cl[1][0][0] == "pid" and elem_ok(cl[2], cl[1][0][1]) and not loops and not guards:
            hits.append(order_of(c[1]))
        else:
            raise Unrecognised("get_number_as_bits: map over something else than (0..bits_length).rev()")
    if len(hits) != 1: raise Unrecognised("get_number_as_bits: `(n >> i) & 1` for i in (0..bits_length).rev() not found")
    return "def %s : Bool := %s\n" % (defname, "true" if hits[0] == "msb" else "false")


def upper_triangle(enc):
    f = enc.fn("get_adj_matrix_upper_diagonal_as_bits")
    g = f.param_names()[0]
    calls = R.collect_inlined(f.body, lambda x: x[0] == "mcall" and x[2] == "is_adjacent" and len(x[3]) == 3)
    if len(calls) != 1: raise Unrecognised("upper triangle: expected one is_adjacent call, found %d" % len(calls))
    c, guards, loops, _ = calls[0]
    if guards or len(loops) != 2: raise Unrecognised("upper triangle: is_adjacent is not inside exactly two nested loops")
    (op, oit), (ip, iit) = loops
    a, b = R.norm(c[3][1]), R.norm(c[3][2])
    oit_n, iit_n = R.norm(oit), R.norm(iit)
    body = f.body
    pushes = lambda var: R.find(body, lambda x: x[0] == "mcall" and x[1] == P(var) and x[2] == "push" and len(x[3]) == 1)
    node_iter = R.norm(("mcall", P(g), "node_identifiers", ()))
    # family 1 (index loop): for node in ids { v.push(node); for i in 1..=n { is_adjacent(v[i-1], v[n]) } n += 1 }
    if op[0] == "pid" and ip[0] == "pid" and iit_n[0] == "range" and iit_n[1] == NUM(1) and iit_n[3] and iit_n[2][0] == "path":
        nvar = iit_n[2]
        if a[0] == "index" and b[0] == "index" and a[1] == b[1] and a[1][0] == "path" and b[2] == nvar \
                and a[2] == R.norm(("bin", "-", P(ip[1]), NUM(1))) and oit_n == node_iter:
            vec = a[1][1][0]
            ps = pushes(vec)
            incs = R.find(body, lambda x: x[0] == "assign" and x[1] == "+=" and x[2] == nvar and R.norm(x[3]) == NUM(1))
            # the push must come before the inner loop and the counter must be bumped after it (checked by position in the loop body)
            ob = [x for x in R.walk(body) if x[0] == "for" and x[1] == op][0][3]
            kinds = []
            for s in ob[1]:
                ex = s[1] if s[0] == "semi" else None
                if ex is None: continue
                if ex[0] == "mcall" and ex[1] == P(vec) and ex[2] == "push" and R.norm(ex[3][0]) == P(op[1]): kinds.append("push")
                elif ex[0] == "for": kinds.append("inner")
                elif ex[0] == "assign" and ex[2] == nvar: kinds.append("inc")
            if kinds == ["push", "inner", "inc"] and len(ps) == 1 and len(incs) == 1:
                return ""
    # family 2 (nodes seen so far): for node in ids { for &e in seen.iter() { is_adjacent(e, node) } seen.push(node) }
    if op[0] == "pid" and oit_n == node_iter and b == P(op[1]):
        ipn = ip
        while ipn[0] == "pref": ipn = ipn[1]
        it = iit_n
        while it[0] == "mcall" and it[2] in ("iter", "copied", "cloned") and not it[3]: it = it[1]
        if ipn[0] == "pid" and a == P(ipn[1]) and it[0] == "path" and len(it[1]) == 1:
            seen = it[1][0]
            ob = [x for x in R.walk(body) if x[0] == "for" and x[1] == op][0][3]
            kinds = []
            for s in ob[1]:
                ex = s[1] if s[0] == "semi" else None
                if ex is None: continue
                if ex[0] == "mcall" and ex[1] == P(seen) and ex[2] == "push" and R.norm(ex[3][0]) == P(op[1]): kinds.append("push")
                elif ex[0] == "for": kinds.append("inner")
            if kinds == ["inner", "push"] and len(pushes(seen)) == 1:
                return ""
    # family 3 (enumerate + prefix slice): for (col, &c) in ids.iter().enumerate() { for &r in &ids[..col] { is_adjacent(r, c) } }
    if op[0] == "ptuple" and len(op[1]) == 2 and op[1][0][0] == "pid":
        col = op[1][0][1]
        cp = op[1][1]
        while cp[0] == "pref": cp = cp[1]
        ipn = ip
        while ipn[0] == "pref": ipn = ipn[1]
        if cp[0] == "pid" and ipn[0] == "pid" and a == P(ipn[1]) and b == P(cp[1]):
            if oit_n[0] == "mcall" and oit_n[2] == "enumerate" and oit_n[1][0] == "mcall" and oit_n[1][2] == "iter":
                ids = oit_n[1][1]
                pre = ("index", ids, ("range", None, P(col), False))
                if iit_n == pre or (iit_n[0] == "mcall" and iit_n[2] == "iter" and not iit_n[3] and iit_n[1] == pre):
                    # `ids` is the list of all node identifiers (collected from graph.node_identifiers(); locals are inlined)
                    if R.find(ids, lambda x: x[0] == "mcall" and x[2] == "node_identifiers"):
                        return ""
    raise Unrecognised("upper triangle: the walk over the earlier nodes is not one of the recognised forms")


def dec_offset(dec):
    f = dec.fn("get_order_bytes_and_adj_matrix_bytes")
    n = dec.constN()
    hits = []
    for c in R.find(f.body, lambda x: x[0] == "mcall" and x[2] == "map" and len(x[3]) == 1 and x[3][0][0] == "closure" and len(x[3][0][1]) == 1):
        cl = R.norm(dec.with_consts(c[3][0]))
        body = cl[2]
        if body[0] == "sub" and body[2] == NUM(n):
            x = body[1]
            while x[0] == "cast": x = x[1]
            if x == P("_b0"): hits.append(1)
    if len(hits) != 1: raise Unrecognised("decoder: `(c as usize) - N` not found")
    return ""


def dec_header(dec):
    f = dec.fn("get_order_bytes_and_adj_matrix_bytes")
    v = R.norm(dec.with_consts(R.Evaluator({}, 0).run_fn(f)))
    if v[0] != "tuple" or len(v[1]) != 2: raise Unrecognised("decoder header: result is not a pair")
    x, y = v[1]
    if x[0] != "ite" or y[0] != "ite" or x[1] != y[1]: raise Unrecognised("decoder header: not one case distinction")
    c = x[1]
    n = dec.constN()
    if not (c[0] == "cmp" and c[1] == "==" and c[3] == NUM(n)): raise Unrecognised("decoder header: condition is not `first_byte == N`")
    first = c[2]
    def sl(e, what):
        if e[0] == "index" and e[2][0] == "range": return e[1], e[2]
        raise Unrecognised("decoder header: %s is not a slice of the bytes" % what)
    b1, r1 = sl(x[2], "long order bytes")
    b2, r2 = sl(y[2], "long body")
    b3, r3 = sl(y[3], "short body")
    if not (b1 == b2 == b3): raise Unrecognised("decoder header: slices of different vectors")
    fb = first
    while fb[0] in ("try",) : fb = fb[1]
    if x[3] != ("list", (first,)): raise Unrecognised("decoder header: short order bytes are not [first_byte]")
    ok = (r1[1] is not None and r1[1][0] == "num" and r1[2] is not None and r1[2][0] == "num" and
          r2[1] is not None and r2[1][0] == "num" and r2[2] is None and r3[1] is not None and r3[1][0] == "num" and r3[2] is None)
    if not ok: raise Unrecognised("decoder header: slice bounds")
    lo, hi = r1[1][1], r1[2][1] if r1[3] else r1[2][1] - 1
    return defs(longFrom=lo, longTo=hi, longBody=r2[1][1], shortBody=r3[1][1])


def dec_group(dec):
    f = dec.fn("bytes_vector_to_bits_vector")
    cs = R.find(f.body, lambda x: x[0] == "call" and x[1] == P("get_number_as_bits") and len(x[2]) == 2)
    if len(cs) != 1: raise Unrecognised("decoder: expected one get_number_as_bits call in bytes_vector_to_bits_vector")
    k = R.norm(dec.with_consts(cs[0][2][1]))
    if k[0] != "num": raise Unrecognised("decoder: bits per byte is not a constant")
    return defs(decGroup=k[1])


def dec_edges(dec):
    f = dec.fn("get_edges")
    ps = f.param_names()
    if len(ps) != 2 or None in ps: raise Broken("get_edges: parameters")
    order, bits = P(ps[0]), P(ps[1])
    pushes = [x[:3] for x in R.collect_inlined(f.body, lambda x: x[0] == "mcall" and x[2] == "push" and len(x[3]) == 1)]
    incs = [x[:3] for x in R.collect_inlined(f.body, lambda x: x[0] == "assign" and x[1] == "+=")]
    if len(pushes) != 1 or len(incs) != 1: raise Unrecognised("get_edges: expected one push and one counter increment")
    c, guards, loops = pushes[0]
    if len(loops) != 2 or loops[0][0][0] != "pid" or loops[1][0][0] != "pid": raise Unrecognised("get_edges: loops")
    col, row = loops[0][0][1], loops[1][0][1]
    if R.norm(loops[0][1]) != ("range", NUM(1), order, False) or R.norm(loops[1][1]) != ("range", NUM(0), P(col), False):
        raise Unrecognised("get_edges: the loops are not `for col in 1..order { for row in 0..col`")
    if R.norm(c[3][0]) != ("tuple", (("call", P("Ix", "new"), (P(row),)), ("call", P("Ix", "new"), (P(col),)))):
        raise Unrecognised("get_edges: the edge is not (Ix::new(row), Ix::new(col))")
    inc, ig, il = incs[0]
    if ig or il != loops or R.norm(inc[3]) != NUM(1) or inc[2][0] != "path": raise Unrecognised("get_edges: bit counter")
    ivar = inc[2]
    if len(guards) != 1 or not guards[0][1]: raise Unrecognised("get_edges: guard")
    gv = R.norm(guards[0][0])
    if gv != ("cmp", "==", ("index", bits, ivar), NUM(1)): raise Unrecognised("get_edges: the guard is not `bits[i] == 1`")
    # the counter starts at 0
    inits = [s for s in f.body[1] if s[0] == "let" and s[1][0] == "pid" and s[1][1] == ivar[1][0]]
    if len(inits) != 1 or inits[0][3] != NUM(0): raise Unrecognised("get_edges: the bit counter does not start at 0")
    return ""

# ------------------------------------------------------------------------------------------------------------------
# Dot (regular expressions, as before)

def dot_items(T, repo, parts):
    path = os.path.join(repo, "src/dot/mod.rs")
    try:
        dot = open(path).read()
        err = None
    except OSError as e:
        dot, err = "", Broken("cannot read %s: %s" % (path, e))
    def guarded(fn):
        def run():
            if err: raise err
            return fn()
        return run
    W = "src/dot/mod.rs"
    def type_():
        m = need(r'static TYPE: \[&str; 2\] = \["([^"]*)", "([^"]*)"\];', dot, "dot: TYPE")
        return ("/-- `TYPE[directed as usize]` -/\ndef TYPE (directed : Bool) : List Char :=\n  if directed then %s else %s\n"
                % (lean_chars(m.group(2)), lean_chars(m.group(1))))
    def edge_():
        m = need(r'static EDGE: \[&str; 2\] = \["([^"]*)", "([^"]*)"\];', dot, "dot: EDGE")
        return ("/-- `EDGE[directed as usize]` -/\ndef EDGE (directed : Bool) : List Char :=\n  if directed then %s else %s\n"
                % (lean_chars(m.group(2)), lean_chars(m.group(1))))
    def indent_():
        return "def INDENT : List Char := %s\n" % lean_chars(need(r'static INDENT: &str = "([^"]*)";', dot, "dot: INDENT").group(1))
    def rankdir_():
        rd = re.findall(r'RankDir::(\w+) => "(\w+)",', dot)
        if [k for k, _ in rd] != ["TB", "BT", "LR", "RL"]:
            raise Unrecognised("dot: rankdir values")
        return "def rankdirValues : List (List Char) := [%s]\n" % ", ".join(lean_chars(v) for _, v in rd)
    def escaper_():
        m = need(r"fn write_char\(&mut self, c: char\) -> fmt::Result \{\s*match c \{(.*?)\n        \}\s*self\.0\.write_char\(c\)\s*\}",
                 dot, "dot: Escaper::write_char", re.S)
        arms = []
        body = re.sub(r"//[^\n]*", "", m.group(1))
        for line in [l.strip() for l in body.split("\n") if l.strip()]:
            pa = re.fullmatch(r"((?:'(?:\\.|[^'\\])'\s*\|\s*)*'(?:\\.|[^'\\])')\s*=>\s*self\.0\.write_char\('((?:\\.|[^'\\]))'\)\?,", line)
            ra = re.fullmatch(r"((?:'(?:\\.|[^'\\])'\s*\|\s*)*'(?:\\.|[^'\\])')\s*=>\s*return self\.0\.write_str\(\"((?:\\.|[^\"\\])*)\"\),", line)
            if pa:
                pats = [R.unescape(x)[0] for x in re.findall(r"'((?:\\.|[^'\\]))'", pa.group(1))]
                arms.append(("prefix", pats, R.unescape(pa.group(2))))
            elif ra:
                pats = [R.unescape(x)[0] for x in re.findall(r"'((?:\\.|[^'\\]))'", ra.group(1))]
                arms.append(("replace", pats, R.unescape(ra.group(2))))
            elif line == "_ => {}":
                arms.append(("default", [], []))
            else:
                raise Unrecognised("dot: escaper arm `%s`" % line)
        if not arms or arms[-1][0] != "default" or any(a[0] == "default" for a in arms[:-1]):
            raise Unrecognised("dot: escaper default arm")
        L = ["/-- the arms of `Escaper::write_char`, in source order -/", "def escapeChar (c : Char) : List Char :="]
        first = True
        for kind, pats, payload in arms[:-1]:
            cond = " ∨ ".join("c = %s" % lean_char(p) for p in pats)
            rhs = ("[" + ", ".join([lean_char(x) for x in payload] + ["c"]) + "]") if kind == "prefix" else lean_chars(payload)
            L.append("  %sif %s then %s" % ("" if first else "else ", cond, rhs))
            first = False
        L.append("  %s[c]" % ("" if first else "else "))
        return "\n".join(L) + "\n"
    def literals_():
        need(r'writeln!\(f, "\{\} \{\{", TYPE\[g\.is_directed\(\) as usize\]\)\?;', dot, "dot: header")
        need(r'writeln!\(f, "\{\}rankdir=\\"\{\}\\"", INDENT, value\)\?;', dot, "dot: rankdir line")
        need(r'write!\(f, "\{\}\{\} \[ ", INDENT, g\.to_index\(node\.id\(\)\),\)\?;', dot, "dot: node line")
        if len(re.findall(r'write!\(f, "label = \\""\)\?;', dot)) != 2 or len(re.findall(r'write!\(f, "\\" "\)\?;', dot)) != 2:
            raise Unrecognised("dot: label delimiters")
        need(r'"\{\}\{\} \{\} \{\} \[ ",\s*INDENT,\s*g\.to_index\(edge\.source\(\)\),\s*EDGE\[g\.is_directed\(\) as usize\],\s*g\.to_index\(edge\.target\(\)\),',
             dot, "dot: edge line")
        need(r'writeln!\(f, "\}\}"\)\?;', dot, "dot: footer")
        need(r'if f\.alternate\(\) \{\s*writeln!\(&mut Escaper\(f\), "\{:#\}", &self\.0\)\s*\} else \{\s*write!\(&mut Escaper\(f\), "\{\}", &self\.0\)',
             dot, "dot: Escaped::fmt")
        return ""
    parts.append(T.item("dot.TYPE", ["C18"], W + ":TYPE", guarded(type_)))
    parts.append(T.item("dot.EDGE", ["C18"], W + ":EDGE", guarded(edge_)))
    parts.append(T.item("dot.INDENT", ["C18"], W + ":INDENT", guarded(indent_)))
    parts.append(T.item("dot.rankdir", ["C18"], W + ":RankDir", guarded(rankdir_)))
    parts.append(T.item("dot.escaper", ["C18"], W + ":Escaper::write_char", guarded(escaper_)))
    parts.append(T.item("dot.literals", ["C18"], W + ":graph_fmt", guarded(literals_)))


def build(repo, write_baseline=False):
    T = Tie("extract_c18", write_baseline)
    enc = G6(os.path.join(repo, "src/graph6/graph6_encoder.rs"), "encoder")
    dec = G6(os.path.join(repo, "src/graph6/graph6_decoder.rs"), "decoder")
    E, D = "src/graph6/graph6_encoder.rs", "src/graph6/graph6_decoder.rs"
    parts = []
    parts.append(T.item("g6.encN", ["C18"], E + ":N", lambda: defs(encN=enc.constN())))
    parts.append(T.item("g6.decN", ["C18"], D + ":N", lambda: defs(decN=dec.constN())))
    parts.append(T.item("g6.orderBits", ["C18"], E + ":get_graph_order_as_bits", lambda: order_bits(enc)))
    parts.append(T.item("g6.maxOrder", ["C18"], E + ":get_graph_order_as_bits", lambda: max_order(enc)))
    parts.append(T.item("g6.padding", ["C18"], E + ":bits_to_ascii", lambda: padding(enc)))
    parts.append(T.item("g6.chunk", ["C18"], E + ":bits_to_ascii", lambda: chunk(enc)))
    parts.append(T.item("g6.encByte", ["C18"], E + ":bits_to_ascii", lambda: enc_byte(enc)))
    parts.append(T.item("g6.encNumberBits", ["C18"], E + ":get_number_as_bits", lambda: number_bits(enc, "encMsbFirst")))
    parts.append(T.item("g6.upperTriangle", ["C18"], E + ":get_adj_matrix_upper_diagonal_as_bits", lambda: upper_triangle(enc)))
    parts.append(T.item("g6.decOffset", ["C18"], D + ":get_order_bytes_and_adj_matrix_bytes", lambda: dec_offset(dec)))
    parts.append(T.item("g6.decHeader", ["C18"], D + ":get_order_bytes_and_adj_matrix_bytes", lambda: dec_header(dec)))
    parts.append(T.item("g6.decGroup", ["C18"], D + ":bytes_vector_to_bits_vector", lambda: dec_group(dec)))
    parts.append(T.item("g6.decNumberBits", ["C18"], D + ":get_number_as_bits", lambda: number_bits(dec, "decMsbFirst")))
    parts.append(T.item("g6.decEdges", ["C18"], D + ":get_edges", lambda: dec_edges(dec)))
    parts.append("")
    dot_items(T, repo, parts)
    text = ("/-\nGENERATED by tools/extract_c18.py from /repo/src/graph6/graph6_encoder.rs, graph6_decoder.rs and\n"
            "/repo/src/dot/mod.rs — do not edit.  Constants and tables as the source states them; `Theorems/C18.lean`\n"
            "proves them equal to the definitions of the mirror models.\n-/\n"
            "namespace PetgraphModel.Extracted.C18\n\n" + "".join(p + ("\n" if p and not p.endswith("\n\n") and p.count("\n") > 1 else "") for p in parts) +
            "\n" + T.flags_lean() + "\nend PetgraphModel.Extracted.C18\n")
    return T, text


def main():
    repo, out, wb = "/repo", os.path.join(ROOT, "lean", "PetgraphModel", "Extracted", "C18.lean"), False
    a = sys.argv[1:]
    while a:
        if a[0] == "--repo":
            repo = a[1]; a = a[2:]
        elif a[0] == "--out":
            out = a[1]; a = a[2:]
        elif a[0] == "--write-baseline":
            wb = True; a = a[1:]
        else:
            print(__doc__); sys.exit(2)
    T, text = build(repo, wb)
    sys.exit(T.finish(out, text))


if __name__ == "__main__":
    main()
