#!/usr/bin/env python3
"""tools/seeded_table.py — regenerate the table of DESIGN.md §9 from seeded/*/meta.json (between the markers
<!-- SEEDED-TABLE-BEGIN --> and <!-- SEEDED-TABLE-END -->)."""
import json, os, re
root = "/verif/seeded"
rows = []
for d in sorted(os.listdir(root)):
    mp = os.path.join(root, d, "meta.json")
    if not os.path.exists(mp):
        continue
    m = json.load(open(mp))
    esc = lambda s: str(s).replace("|", "\\|").replace("\n", " ")
    rows.append("| `%s` | %s | %s | %s | %s |" % (d, m.get("property", d[:3]), esc(m.get("breaks", "")), esc(m.get("needs", "")), esc(m.get("detected_by", ""))))
table = "| seeded change | prop | what it breaks | what it needs to manifest | detection |\n|---|---|---|---|---|\n" + "\n".join(rows)
p = "/verif/DESIGN.md"
s = open(p).read()
b, e = "<!-- SEEDED-TABLE-BEGIN -->", "<!-- SEEDED-TABLE-END -->"
if b in s and e in s:
    s = s[:s.index(b) + len(b)] + "\n" + table + "\n" + s[s.index(e):]
    open(p, "w").write(s)
    print("table regenerated: %d rows" % len(rows))
else:
    print(table)
