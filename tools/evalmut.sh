#!/bin/bash
# tools/evalmut.sh <name> <patchfile> <PID[,PID...]> [check args...] — screen a candidate change WITHOUT touching /repo or /verif:
# a scratch worktree of /repo (patch applied) and a scratch copy of /verif are bind-mounted over /repo and /verif
# inside a private mount namespace, and ./check runs there. Prints the summary; scratch is removed afterwards.
# (The runs of record for seeded/<id>/detect.log use tools/detect_seeded.sh on /repo itself.)
name=$1; patch=$2; P=$3; shift 3
S=/tmp/ev/$name; rm -rf $S; mkdir -p $S
git -C /repo worktree add -q --detach $S/repo HEAD || exit 2
( cd $S/repo && git apply $patch ) || { echo "$name: patch does not apply"; git -C /repo worktree remove --force $S/repo; exit 2; }
cp /repo/Cargo.lock $S/repo/ 2>/dev/null
rsync -a --exclude .git --exclude work --exclude replays --exclude harness/target /verif/ $S/verif/   # cold harness build: copying a target dir that a concurrent ./check is writing gives spurious build failures
mkdir -p $S/verif/work $S/verif/replays
# a pristine copy of a finished harness build (made while nothing was building) keeps the two profiles warm
[ -d /root/work/target_cache ] && rsync -a /root/work/target_cache/ $S/verif/harness/target/
out=$(unshare -m bash -c "mount --bind $S/repo /repo && mount --bind $S/verif /verif && cd /verif && for p in ${P//,/ }; do ./check \$p $* 2>&1; done" | grep -E "tier=|VIOLATION|BROKEN" | cut -c1-300)
mkdir -p /verif/work/evalmut; { echo "== $name ($P) $(date -u +%FT%TZ)"; echo "$out"; } >> /verif/work/evalmut/log.txt
cp $S/verif/replays/*.json /verif/work/evalmut/ 2>/dev/null
git -C /repo worktree remove --force $S/repo; rm -rf $S
if echo "$out" | grep -q "VIOLATION"; then echo "$name: ALARM :: $(echo "$out" | tr '\n' '|' | cut -c1-400)"; else echo "$name: quiet :: $(echo "$out" | head -1 | cut -c1-200)"; fi
