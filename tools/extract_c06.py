#!/usr/bin/env python3
"""
C06 extraction (DESIGN App. E, row `traits_graph.rs, csr.rs, adj.rs`): for every `impl GetAdjacencyMatrix for T`
in /repo/src read off
  * which size function (`node_count` / `node_bound`) gives the matrix width when `adjacency_matrix` BUILDS the bitmap and
    when `is_adjacent` READS it (`stored` = the type keeps its own matrix: `adjacency_matrix` has an empty body),
  * the capacity of the bitmap and the bit index expressions of both, in canonical form over (n, s, t) = (width,
    source/row index, target/column index),
  * whether the type is `NodeCompactIndexable`,
and write lean/PetgraphModel/Extracted/AdjWidth.lean.  Theorems/C06.lean states that building and reading agree
(a regression of D8 — StableGraph read with node_count — then breaks a proof obligation).

The bodies are parsed (tools/rustexpr.py): locals are inlined, so the name of the width local, `let`s for the row/column
indices, tuple lets, `let undirected = !self.is_directed()`, UFCS calls (`NodeIndexable::node_bound(self)`), a private
helper fn computing the bit, and any commutative/associative spelling of the index expression all give the same text.

One item per implementing type (`adjwidth.<T>`); outcomes recognised / changed / unrecognised / broken as in tools/tielib.py.
Fail-closed (broken): a source file missing, or the number of `impl GetAdjacencyMatrix` blocks is not the expected six.

usage: tools/extract_c06.py [repo_root] [--write-baseline]     (default /repo)
"""
import os, re, sys
sys.path.insert(0, os.path.dirname(os.path.abspath(__file__)))
import rustexpr as R
from rustexpr import Unrecognised
from tielib import Tie, Broken, ROOT

OUT = os.path.join(ROOT, "lean", "PetgraphModel", "Extracted", "AdjWidth.lean")
FILES = ["src/traits_graph.rs", "src/csr.rs", "src/adj.rs", "src/graphmap.rs", "src/matrix_graph.rs"]
COMPACT_FILES = ["src/graph_impl/mod.rs", "src/graph_impl/stable_graph/mod.rs", "src/csr.rs", "src/adj.rs",
                 "src/graphmap.rs", "src/matrix_graph.rs"]
EXPECTED = ["Graph", "StableGraph", "Csr", "List", "GraphMap", "MatrixGraph"]
SIZE_FNS = {"node_count": "nodeCount", "node_bound": "nodeBound"}
HDR = re.compile(r"\bGetAdjacencyMatrix\s+for\s+&?\s*(?:'\w+\s+)?(\w+)")


def size_atoms(e):
    return {x for x in R.walk(e) if x[0] == "mcall" and x[2] in SIZE_FNS and x[1] == ("path", ("self",)) and not x[3]}


def canon_bit(e, atoms, what):
    """canonical polynomial of a bit index / capacity over n, s, t; `atoms`: canonical node -> name"""
    v = R.norm(e)
    sz = size_atoms(v)
    if len(sz) > 1:
        raise Unrecognised("%s mixes two size functions" % what)
    m = dict(atoms)
    for a in sz:
        m[a] = ("path", ("n",))
    v = R.norm(R.subst(v, m))
    free = {x for x in R.walk(v) if x[0] not in ("poly", "num") }
    bad = [x for x in free if not (x[0] == "path" and x[1] in (("n",), ("s",), ("t",)))]
    if bad:
        raise Unrecognised("%s is not arithmetic over the width and the two indices: %s" % (what, R.show(bad[0])))
    kinds = {SIZE_FNS[a[2]] for a in sz}
    return R.to_lean(v), kinds


def analyse(ty, fns, helpers):
    """-> (build_width, read_width, [lean defs])"""
    by_name = {}
    for f in fns:
        by_name.setdefault(f.name, []).append(f)
    for need in ("adjacency_matrix", "is_adjacent"):
        if len(by_name.get(need, [])) != 1:
            raise Broken("impl GetAdjacencyMatrix for %s: expected one fn %s, found %d" % (ty, need, len(by_name.get(need, []))))
    b, r = by_name["adjacency_matrix"][0], by_name["is_adjacent"][0]
    for f in (b, r):
        if f.body is None:
            raise Unrecognised("body of %s::%s does not parse: %s" % (ty, f.name, f.error))
    if not b.body[1] and b.body[2] is None:
        return "stored", "stored", []
    # ---- build
    caps = [(c[2][0], g, l) for c, g, l, _ in R.collect_inlined(
        b.body, lambda x: x[0] == "call" and x[1][0] == "path" and x[1][1][-1] == "with_capacity" and len(x[2]) == 1, helpers)]
    puts = [(c[3][0], g, l) for c, g, l, _ in R.collect_inlined(
        b.body, lambda x: x[0] == "mcall" and ((x[2] in ("put", "insert") and len(x[3]) == 1) or
                                               (x[2] == "set" and len(x[3]) == 2 and R.norm(x[3][1]) == ("bool", True))), helpers)]
    if len(caps) != 1 or caps[0][1] or caps[0][2]:
        raise Unrecognised("%s::adjacency_matrix: expected one unconditional `with_capacity(..)`, found %d" % (ty, len(caps)))
    if not puts:
        raise Unrecognised("%s::adjacency_matrix: no bit is set" % ty)
    loops = puts[0][2]
    if len(loops) != 1 or any(p[2] != loops for p in puts):
        raise Unrecognised("%s::adjacency_matrix: the bits are not set in one loop over the edge references" % ty)
    pat, it = loops[0]
    if not R.find(it, lambda x: x[0] == "mcall" and x[2] == "edge_references") or pat[0] != "pid":
        raise Unrecognised("%s::adjacency_matrix: the loop is not `for <edge> in self.edge_references()`" % ty)
    ev = ("path", (pat[1],))
    atoms = {R.norm(("mcall", ("mcall", ev, "source", ()), "index", ())): ("path", ("s",)),
             R.norm(("mcall", ("mcall", ev, "target", ()), "index", ())): ("path", ("t",))}
    undirected = R.norm(("un", "!", ("mcall", ("path", ("self",)), "is_directed", ())))
    main, sym = [], []
    for e, guards, _ in puts:
        gs = [(R.norm(c) if pol else R.Normaliser().negate(R.norm(c))) for c, pol in guards]
        if not gs:
            main.append(e)
        elif gs == [undirected]:
            sym.append(e)
        else:
            raise Unrecognised("%s::adjacency_matrix: a bit is set under a condition other than `!self.is_directed()`" % ty)
    if len(main) != 1 or len(sym) > 1:
        raise Unrecognised("%s::adjacency_matrix: expected one unconditional put and at most one for undirected graphs" % ty)
    kinds = set()
    cap, k = canon_bit(caps[0][0], atoms, "%s: bitmap capacity" % ty); kinds |= k
    bb, k = canon_bit(main[0], atoms, "%s: bit of an edge" % ty); kinds |= k
    defs = ["def bitCap_%s (n : Nat) : Nat := %s" % (ty, cap),
            "def bitBuild_%s (n s t : Nat) : Nat := %s" % (ty, bb)]
    if sym:
        bs, k = canon_bit(sym[0], atoms, "%s: mirrored bit of an undirected edge" % ty); kinds |= k
        defs.append("def bitBuildSym_%s (n s t : Nat) : Nat := %s" % (ty, bs))
    if len(kinds) != 1:
        raise Unrecognised("%s::adjacency_matrix: width is not one of node_count()/node_bound() (%s)" % (ty, sorted(kinds)))
    bw = kinds.pop()
    # ---- read
    params = r.param_names()
    if len(params) != 4 or params[2] is None or params[3] is None:
        raise Unrecognised("%s::is_adjacent: parameters" % ty)
    reads = [(c[3][0], g, l, role) for c, g, l, role in R.collect_inlined(
        r.body, lambda x: x[0] == "mcall" and x[2] in ("contains", "is_set") and len(x[3]) == 1, helpers)]
    reads += [(c[2], g, l, role) for c, g, l, role in R.collect_inlined(r.body, lambda x: x[0] == "index", helpers) if role == "tail"]
    if len(reads) != 1 or reads[0][1] or reads[0][2]:
        raise Unrecognised("%s::is_adjacent: expected one unconditional `matrix.contains(..)`, found %d" % (ty, len(reads)))
    atoms_r = {R.norm(("mcall", ("path", (params[2],)), "index", ())): ("path", ("s",)),
               R.norm(("mcall", ("path", (params[3],)), "index", ())): ("path", ("t",))}
    br, kr = canon_bit(reads[0][0], atoms_r, "%s: bit read by is_adjacent" % ty)
    if len(kr) != 1:
        raise Unrecognised("%s::is_adjacent: width is not one of node_count()/node_bound()" % ty)
    defs.append("def bitRead_%s (n s t : Nat) : Nat := %s" % (ty, br))
    return bw, kr.pop(), defs


def main(repo, write_baseline):
    T = Tie("extract_c06", write_baseline)
    compact, found = set(), []
    problems = []
    for f in COMPACT_FILES:
        try:
            src = open(os.path.join(repo, f)).read()
        except OSError as e:
            problems.append("cannot read %s" % f); continue
        for m in re.finditer(r"NodeCompactIndexable\s+for\s+&?\s*(?:'\w+\s+)?(\w+)", src):
            compact.add(m.group(1))
    for f in FILES:
        try:
            src = open(os.path.join(repo, f)).read()
        except OSError:
            problems.append("cannot read %s" % f); continue
        try:
            F = R.parse_file(src)
        except Unrecognised as e:
            problems.append("%s does not tokenise: %s" % (f, e)); continue
        helpers = {g.name: g for g in F.fns if g.impl is None}
        seen = []
        for g in F.fns:
            if g.impl:
                m = HDR.search(g.impl)
                if m and (m.group(1), g.impl) not in seen:
                    seen.append((m.group(1), g.impl))
        for ty, hdr in seen:
            found.append((ty, f, [g for g in F.fns if g.impl == hdr], helpers))
    types = [x[0] for x in found]
    parts, rows = [], []
    def count_ok():
        if problems:
            raise Broken("; ".join(problems))
        if sorted(types) != sorted(EXPECTED):
            raise Broken("expected GetAdjacencyMatrix impls for %s, found %s" % (", ".join(EXPECTED), ", ".join(types) or "none"))
        return ""
    T.item("adjwidth.impl_count", ["C06"], "src/{traits_graph,csr,adj,graphmap,matrix_graph}.rs:impl GetAdjacencyMatrix", count_ok, flag="impls")
    for ty in EXPECTED:
        cands = [x for x in found if x[0] == ty]
        def thunk(ty=ty, cands=cands):
            if len(cands) != 1:
                raise Broken("%d impl GetAdjacencyMatrix for %s" % (len(cands), ty))
            _, f, fns, helpers = cands[0]
            bw, rw, defs = analyse(ty, fns, helpers)
            row = 'def impl_%s : Impl := ⟨"%s", "%s", %s, .%s, .%s⟩' % (ty, ty, f, "true" if ty in compact else "false", bw, rw)
            return "\n".join([row] + defs) + "\n"
        where = "%s:impl GetAdjacencyMatrix for %s" % (cands[0][1] if cands else "?", ty)
        parts.append(T.item("adjwidth." + ty, ["C06"], where, thunk))
    lines = ["-- GENERATED by tools/extract_c06.py from %s/src — do not edit" % "/repo",
             "namespace PetgraphModel.Extracted.AdjWidth",
             "",
             "/-- the size function that gives the matrix width (`stored`: the type keeps its own matrix) -/",
             "inductive Width where",
             "  | nodeCount | nodeBound | stored",
             "  deriving DecidableEq, Repr",
             "",
             "structure Impl where",
             "  ty : String",
             "  file : String",
             "  compact : Bool",
             "  build : Width",
             "  read : Width",
             "  deriving Repr",
             "",
             "/-! per implementing type: the row of the table; the capacity of the bitmap; the bit set by `adjacency_matrix` for an",
             "edge `s → t` (`Sym`: the second bit of an undirected edge); the bit read by `is_adjacent(s, t)`; `n` = the width.",
             "Canonical form (sorted sum of sorted products) whatever the spelling in the source. -/",
             ""]
    lines += parts
    lines += ["def impls : List Impl := [%s]" % ", ".join("impl_" + t for t in EXPECTED), "", T.flags_lean(),
              "end PetgraphModel.Extracted.AdjWidth", ""]
    return T, "\n".join(lines)


if __name__ == "__main__":
    args = [a for a in sys.argv[1:] if a != "--write-baseline"]
    repo = args[0] if args else "/repo"
    T, text = main(repo, "--write-baseline" in sys.argv)
    sys.exit(T.finish(OUT, text))
