#!/bin/bash
# tools/integrate_w3.sh <PID>... — take wave-3 proof files (Proofs/<PID>W3*.lean) and Theorems/<PID>.lean from /root/work/w3_<pid>/{lean|verif/lean}
for P in "$@"; do
  p=$(echo $P | tr A-Z a-z); src=/root/work/w3_$p/lean/PetgraphModel; [ -d $src ] || src=/root/work/w3_$p/verif/lean/PetgraphModel
  cp $src/Proofs/${P}W3*.lean /verif/lean/PetgraphModel/Proofs/ 2>/dev/null
  cp $src/Theorems/$P.lean /verif/lean/PetgraphModel/Theorems/$P.lean
  echo "$P: $(ls $src/Proofs/${P}W3*.lean 2>/dev/null | wc -l) proof files from $src"
done
