#!/bin/bash
# tools/confirm_seeded.sh <seeded-dir-name>...   — confirm a kept seeded change in a scratch worktree:
# demo fails with the patch, existing suite passes with the patch, demo passes without. Appends to seeded/<id>/confirm.log
export CARGO_NET_OFFLINE=true
for id in "$@"; do
  d=/verif/seeded/$id
  wt=/tmp/confirm_$id
  rm -rf $wt; git -C /repo worktree add -q $wt HEAD || continue
  {
    echo "== $(date -u +%FT%TZ) confirm $id at /repo $(git -C /repo rev-parse --short HEAD)"
    cd $wt && git apply $d/patch.diff && cp $d/seeded_demo.rs tests/seeded_demo.rs
    feat=""; grep -q "serde" $d/seeded_demo.rs && feat="--features serde-1"
    echo "-- demo WITH patch (must fail):"
    cargo test --offline $feat --test seeded_demo 2>&1 | grep -E "^test |test result|error(\[|:)" | head -12
    mv tests/seeded_demo.rs /tmp/seeded_demo_$id.rs
    echo "-- existing suite WITH patch (must pass):"
    cargo test --offline --workspace --no-fail-fast 2>&1 | grep -E "^test result|FAILED|failed" | sort | uniq -c | head -8
    git checkout -q -- src
    mv /tmp/seeded_demo_$id.rs tests/seeded_demo.rs
    echo "-- demo WITHOUT patch (must pass):"
    cargo test --offline $feat --test seeded_demo 2>&1 | grep -E "^test |test result|error(\[|:)" | head -12
  } >> $d/confirm.log 2>&1
  cd /; git -C /repo worktree remove --force $wt
done
