#!/bin/bash
# tools/seed_sweep.sh <seed>... — run every quick check under the given seeds; any non-zero exit is a false alarm on the unchanged tree
cd /verif
for s in "$@"; do
  for p in $(python3 -c "import json;print(' '.join(c['property_id'] for c in json.load(open('/verif/MANIFEST.json'))['checks']))"); do
    out=$(VERIF_SEED=$s ./check $p 2>&1); rc=$?
    echo "seed=$s $p rc=$rc $(echo "$out" | grep -E 'tier=' | sed 's/.*theorems/theorems/' | cut -c1-120) $(echo "$out" | grep -E '^VIOLATION|^BROKEN' | head -2 | tr '\n' ' ')"
  done
done
