#!/bin/bash
# tools/integrate_w2.sh <PID>... — take the wave-2 proof files of a property from /root/work/w2_<pid>/lean
for P in "$@"; do
  p=$(echo $P | tr A-Z a-z); src=/root/work/w2_$p/lean/PetgraphModel
  cp $src/Proofs/${P}W2*.lean /verif/lean/PetgraphModel/Proofs/ 2>/dev/null
  cp $src/Theorems/$P.lean /verif/lean/PetgraphModel/Theorems/$P.lean
  echo "$P: $(ls $src/Proofs/${P}W2*.lean 2>/dev/null | wc -l) proof files"
done
