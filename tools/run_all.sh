#!/bin/bash
# tools/run_all.sh <tier> [props...] — run the checks one after the other, log to work/run_all_<tier>.log
tier=${1:-quick}; shift
props=${@:-$(python3 -c "import json;print(' '.join(c['property_id'] for c in json.load(open('/verif/MANIFEST.json'))['checks']))")}
cd /verif
for p in $props; do
  s=$(date +%s)
  out=$(./check $p --tier $tier 2>&1 | grep -E "tier=|VIOLATION|BROKEN|KNOWN-FINDING" | cut -c1-220)
  echo "$p rc=$? $(( $(date +%s) - s ))s :: $out"
done
