#!/usr/bin/env python3
"""validate MANIFEST.json and evidence/*.json against the schemas (needs python3-vt for jsonschema)"""
import json, glob, sys, jsonschema
jsonschema.validate(json.load(open('/verif/MANIFEST.json')), json.load(open('/root/.vp/MANIFEST.schema.json')))
es = json.load(open('/root/.vp/EVIDENCE.schema.json'))
for f in sorted(glob.glob('/verif/evidence/*.json')):
    jsonschema.validate(json.load(open(f)), es)
m = json.load(open('/verif/MANIFEST.json'))
ids = {c['property_id'] for c in m['checks']} | {n['property_id'] for n in m.get('not_applicable', [])}
want = {json.loads(l)['id'] for l in open('/verif/properties.jsonl')}
assert ids == want, (want - ids, ids - want)
print('valid: manifest,', len(glob.glob('/verif/evidence/*.json')), 'evidence files;', len(m['checks']), 'claimed')
