#!/usr/bin/env python3
"""
tools/integrate.py <PID> [--apply]   — merge a builder's private copy /root/work/<pid>/verif into /verif.

Lists files that are new or changed in the copy. With --apply: copies new files and files that belong to the
vertical, and adds the registration lines (lean/Main.lean, lean/PetgraphModel.lean, harness/src/main.rs) for PID.
Changed SHARED files are never copied automatically: their diff is printed for manual review.
"""
import os, sys, filecmp, shutil, subprocess, re

pid = sys.argv[1]
apply = "--apply" in sys.argv
src = "/root/work/%s/verif" % pid.lower()
dst = "/verif"
SKIP_DIRS = {".git", ".lake", "target", "work", "replays", "evidence", "__pycache__", "seeded"}
SHARED = {"check", "setup.sh", "BUILDING.md", "DESIGN.md", "MANIFEST.json", "known_findings.json", "properties.jsonl",
          "lean/Main.lean", "lean/PetgraphModel.lean", "lean/lakefile.toml", "lean/PetgraphModel/Common.lean",
          "lean/PetgraphModel/GraphProto.lean", "lean/PetgraphModel/Spec/Graph.lean", "lean/PetgraphModel/Oracle/Reach.lean",
          "lean/PetgraphModel/Oracle/Dist.lean", "lean/PetgraphModel/Proofs/Dist.lean",
          "harness/src/main.rs", "harness/src/common.rs", "harness/src/rng.rs", "harness/src/graphs.rs",
          "harness/Cargo.toml", "harness/Cargo.lock", "tools/extract.py", "tools/mkmanifest.py", "tools/validate.py",
          "tools/integrate.py", ".gitignore", "lean/lake-manifest.json"}
new, changed_own, changed_shared = [], [], []
for root, dirs, files in os.walk(src):
    dirs[:] = [d for d in dirs if d not in SKIP_DIRS]
    for f in files:
        p = os.path.join(root, f)
        rel = os.path.relpath(p, src)
        q = os.path.join(dst, rel)
        if not os.path.exists(q):
            new.append(rel)
        elif not filecmp.cmp(p, q, shallow=False):
            # files of OTHER verticals that moved on in /verif since the copy was taken are not this builder's
            (changed_shared if rel in SHARED else changed_own).append(rel)
print("NEW:", *new, sep="\n  ")
print("CHANGED (vertical or other):", *changed_own, sep="\n  ")
print("CHANGED SHARED:", *changed_shared, sep="\n  ")
for rel in (changed_shared if "--diff" in sys.argv else []):
    if rel in ("lean/Main.lean", "lean/PetgraphModel.lean", "harness/src/main.rs", "harness/Cargo.lock", "MANIFEST.json"):
        continue
    print("=" * 30, rel)
    subprocess.run(["diff", os.path.join(dst, rel), os.path.join(src, rel)])
if not apply:
    sys.exit(0)
own_pat = re.compile(r"(%s|%s)" % (pid, pid.lower()))
for rel in new:
    os.makedirs(os.path.dirname(os.path.join(dst, rel)) or ".", exist_ok=True)
    shutil.copy2(os.path.join(src, rel), os.path.join(dst, rel))
    print("copied new", rel)
for rel in changed_own:
    # only files that name the property, or that did not exist in /verif's git HEAD version of other verticals
    ans = own_pat.search(rel) is not None
    if ans:
        shutil.copy2(os.path.join(src, rel), os.path.join(dst, rel))
        print("copied changed", rel)
    else:
        print("NOT copied (does not name the property; review):", rel)
# registration
P, p = pid, pid.lower()
main = open(os.path.join(dst, "lean/Main.lean")).read()
if "Driver.%s" % P not in main:
    main = main.replace("import PetgraphModel.Common\n", "import PetgraphModel.Common\nimport PetgraphModel.Driver.%s\n" % P, 1)
    main = main.replace("  | _ => IO.eprintln", '  | ["%s"] => driverLoop inp out %s.step {}; return 0\n  | _ => IO.eprintln' % (P, P))
    open(os.path.join(dst, "lean/Main.lean"), "w").write(main)
    print("registered in Main.lean")
rs = open(os.path.join(dst, "harness/src/main.rs")).read()
if "mod %s;" % p not in rs:
    rs = rs.replace("mod common;", "mod %s;\nmod common;" % p, 1)
    rs = rs.replace('        _ => { eprintln!("unknown property', '        "%s" => %s::run,\n        _ => { eprintln!("unknown property' % (P, p))
    open(os.path.join(dst, "harness/src/main.rs"), "w").write(rs)
    print("registered in main.rs")
root = open(os.path.join(dst, "lean/PetgraphModel.lean")).read()
add = []
for rel in new + changed_own:
    if rel.startswith("lean/PetgraphModel/") and rel.endswith(".lean"):
        mod = rel[len("lean/"):-5].replace("/", ".")
        if "import " + mod + "\n" not in root and (rel.startswith("lean/PetgraphModel/Theorems/") or rel.startswith("lean/PetgraphModel/Driver/")):
            add.append("import " + mod)
if add:
    open(os.path.join(dst, "lean/PetgraphModel.lean"), "w").write(root.rstrip("\n") + "\n" + "\n".join(add) + "\n")
    print("root imports:", add)
