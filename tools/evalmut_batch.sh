#!/bin/bash
# tools/evalmut_batch.sh <listfile> [parallel] — lines: <name> <patchfile> <PID[,PID...]>
par=${2:-3}
grep -v '^#' $1 | xargs -P $par -L 1 /verif/tools/evalmut.sh
