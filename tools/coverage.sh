#!/bin/bash
# tools/coverage.sh [tier] [props...] — line/region coverage of /repo/src under the harness workload (what the
# correspondence check actually executes). Needs the nightly toolchain's llvm-tools. Output: work/coverage/{summary.txt,<file>.txt}
# Not part of any registered check: it is the instrument used to find code the generators never reach.
tier=${1:-quick}; shift
props=${@:-$(ls /verif/props | sed 's/.json//')}
export CARGO_NET_OFFLINE=true
BIN=$(dirname $(rustup which --toolchain nightly rustc))/../lib/rustlib/x86_64-unknown-linux-gnu/bin
OUT=/verif/work/coverage; rm -rf $OUT; mkdir -p $OUT/raw
cd /verif/harness
RUSTFLAGS="-C instrument-coverage" CARGO_TARGET_DIR=/verif/harness/target/cov cargo +nightly build --offline --quiet 2>&1 | tail -3
EXE=/verif/harness/target/cov/debug/pgharness
for P in $props; do
  cases=$(python3 -c "import json;c=json.load(open('/verif/props/$P.json'));print(c.get('cases',{}).get('$tier',c.get('cases_$tier',200)) if isinstance(c.get('cases',{}),dict) else c['cases'])" 2>/dev/null || echo 200)
  for s in $(seq 0 15); do
    LLVM_PROFILE_FILE=$OUT/raw/$P-$s.profraw timeout 900 $EXE $P --seed 20260930 --cases $cases --shard $s/16 --tier $tier >/dev/null 2>&1 &
  done; wait
  echo "$P ran ($cases cases)"
done
$BIN/llvm-profdata merge -sparse $OUT/raw/*.profraw -o $OUT/all.profdata
$BIN/llvm-cov report $EXE -instr-profile=$OUT/all.profdata $(find /repo/src -name '*.rs') 2>/dev/null > $OUT/summary.txt
$BIN/llvm-cov show $EXE -instr-profile=$OUT/all.profdata --show-line-counts-or-regions --format=text -output-dir=$OUT/show $(find /repo/src -name '*.rs') >/dev/null 2>&1
rm -rf $OUT/raw
tail -5 $OUT/summary.txt
