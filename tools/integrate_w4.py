#!/usr/bin/env python3
"""tools/integrate_w4.py <copy-root> <base-commit> [--apply]  — three-way file-level merge of a builder's private copy:
a file the builder changed w.r.t. the base commit is copied when /verif still has the base version (or the same
content); otherwise it is reported as a CONFLICT for manual merging. evidence/, DESIGN.md, MANIFEST.json, seeded/,
docs/ and build outputs are ignored."""
import os, sys, subprocess, filecmp, shutil
src, base = sys.argv[1], sys.argv[2]
apply = "--apply" in sys.argv
SKIP_DIRS = {".git", ".lake", "target", "work", "replays", "evidence", "__pycache__", "seeded", "docs"}
SKIP_FILES = {"DESIGN.md", "MANIFEST.json", "harness/Cargo.lock", "lean/lake-manifest.json"}
def base_content(rel):
    r = subprocess.run(["git", "-C", "/verif", "show", "%s:%s" % (base, rel)], capture_output=True)
    return r.stdout if r.returncode == 0 else None
changed, conflicts = [], []
for root, dirs, files in os.walk(src):
    dirs[:] = [d for d in dirs if d not in SKIP_DIRS]
    for f in files:
        p = os.path.join(root, f); rel = os.path.relpath(p, src)
        if rel in SKIP_FILES: continue
        mine = open(p, "rb").read()
        b = base_content(rel)
        if b is not None and b == mine: continue          # unchanged by the builder
        q = os.path.join("/verif", rel)
        cur = open(q, "rb").read() if os.path.exists(q) else None
        if cur == mine: continue                           # already there
        if cur is None or cur == b:
            changed.append(rel)
        else:
            conflicts.append(rel)
print("TO COPY:", *changed, sep="\n  ")
print("CONFLICTS (both sides changed since %s):" % base, *conflicts, sep="\n  ")
if apply:
    for rel in changed:
        os.makedirs(os.path.dirname(os.path.join("/verif", rel)) or ".", exist_ok=True)
        shutil.copy(os.path.join(src, rel), os.path.join("/verif", rel))
    print("copied %d files" % len(changed))
