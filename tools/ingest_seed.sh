#!/bin/bash
# tools/ingest_seed.sh <worktree> <patchfile> <demofile> <seeded-id> "<breaks>" "<needs>" — keep a seeder's change under seeded/<id>/
wt=$1; patch=$2; demo=$3; id=$4; breaks=$5; needs=$6
d=/verif/seeded/$id; mkdir -p $d
cp $wt/$patch $d/patch.diff; cp $wt/$demo $d/seeded_demo.rs
python3 - "$id" "$breaks" "$needs" <<'PY'
import json,sys
id,breaks,needs=sys.argv[1:4]
json.dump({"property":id.split('-')[0],"breaks":breaks,"needs":needs,"confirmed":"see confirm.log (tools/confirm_seeded.sh)","detected_by":"see detect.log (tools/detect_seeded.sh)"},open(f"/verif/seeded/{id}/meta.json","w"),indent=1)
PY
echo kept $d
