#!/usr/bin/env python3
"""Regenerate MANIFEST.json from props/*.json (claimed checks) and properties.jsonl (the rest -> not_applicable)."""
import json, os, glob
ROOT = os.path.dirname(os.path.dirname(os.path.abspath(__file__)))
props = [json.loads(l) for l in open(os.path.join(ROOT, "properties.jsonl"))]
cfgs = {os.path.basename(f)[:-5]: json.load(open(f)) for f in glob.glob(os.path.join(ROOT, "props", "*.json"))}
pending = json.load(open(os.path.join(ROOT, "tools", "pending.json"))) if os.path.exists(os.path.join(ROOT, "tools", "pending.json")) else {}
checks, na = [], []
for p in props:
    pid = p["id"]
    c = cfgs.get(pid)
    if c and c.get("claimed", True):
        checks.append({
            "property_id": pid,
            "quick_cmd": "./check %s --tier quick" % pid,
            "thorough_cmd": "./check %s --tier thorough" % pid,
            "evidence_file": "evidence/%s.json" % pid,
            "replay_cmd_template": "./check %s --replay {path}" % pid,
            "engine": "lean-model",
            "level_claimed": {"category": c.get("level", "proof"), "text": c["level_text"], "design_ref": c.get("design_ref", "DESIGN.md section 4")},
            "level_note": c["level_note"],
            "technique": c["technique"],
        })
    else:
        na.append({"property_id": pid, "reason": pending.get(pid, "not built yet (work in progress; see DESIGN.md section 8)")})
m = {
    "version": 1,
    "setup_cmd": "./setup.sh",
    "hooks": {"guard": "petgraph_verif",
              "enable": "no hooks are needed: every property is observed through the public API (RUSTFLAGS='--cfg petgraph_verif' is reserved should one become necessary)",
              "baseline_off_cmd": "cd /repo && cargo test --workspace --no-fail-fast --offline",
              "source_commits": [], "add_only": True},
    "engines": [
        {"name": "lean-model", "path": "lean/", "serves_properties": [c["property_id"] for c in checks],
         "kind_free_text": "Lean 4 models, specs, proved oracles and property theorems; compiled line-protocol driver pgmodel"},
        {"name": "harness", "path": "harness/", "serves_properties": [c["property_id"] for c in checks],
         "kind_free_text": "Rust differential harness executing /repo (path dependency, rebuilt from the working tree) in-process"}],
    "checks": checks,
    "not_applicable": na,
    "notes": "Technique family: machine-checked proof in Lean 4 + a checked tie to /repo (definitions regenerated from source where they are tables/arithmetic; differential correspondence for hand-written models). See DESIGN.md. known_findings.json lists repaired (fix: commits) and open defects.",
}
json.dump(m, open(os.path.join(ROOT, "MANIFEST.json"), "w"), indent=1)
print("MANIFEST: %d claimed, %d pending" % (len(checks), len(na)))
