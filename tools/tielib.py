#!/usr/bin/env python3
"""
tools/tielib.py — the three outcomes of a source extractor (DESIGN.md Appendix E) and the baseline they are measured
against.  Every extractor cuts its work into ITEMS (one constant, one formula, one table row group, one shape check).

  recognised    the source was understood; the Lean text of the item is regenerated in canonical form and is the same as
                the recorded baseline (tools/extract_baseline.json)
  changed       the source was understood and the regenerated text DIFFERS from the baseline: the theorems are now checked
                against the new text (a semantic change shows up as a failing proof obligation)
  unrecognised  the extractor cannot translate this code (shape outside the recognised set).  NOT a broken tie by itself:
                the item keeps its baseline text (= the hand-written model's value, proved equal by the theorems at the
                time the baseline was recorded) so that the library still builds, `def recognised_<item> : Bool := false`
                is emitted, and ./check compensates with the widened correspondence search
  broken        not a shape problem: file / function / constant missing, or the number of occurrences changed.  Fail-closed:
                the generated file contains a failing `example`, exit code 1

The baseline is (re)written by `tools/extract.py --write-baseline` on a tree whose check is green.
"""
import json, os, sys

ROOT = os.path.dirname(os.path.dirname(os.path.abspath(__file__)))
BASELINE = os.path.join(ROOT, "tools", "extract_baseline.json")

class Broken(Exception):
    """fail-closed condition (not a shape problem)"""

from rustexpr import Unrecognised   # noqa: E402  (shape problem)


def load_baseline():
    try:
        return json.load(open(BASELINE))
    except (OSError, ValueError):
        return {}


class Tie:
    """collects the items of one extractor run"""
    def __init__(self, extractor, write_baseline=False):
        self.extractor = extractor
        self.base = load_baseline()
        self.write_baseline = write_baseline
        self.items = []            # dicts: item, props, where, status, detail, text, flag

    def item(self, name, props, where, thunk, flag=None, same=None):
        """run `thunk() -> Lean text` (may be "" for a pure shape check) and classify the outcome; returns the text to emit.
        `flag`: Lean identifier suffix for `recognised_<flag>` (default: derived from the item name); `same(base, text)`:
        optional coarser equality with the baseline (differences that carry no content, e.g. the name of a local)"""
        base = self.base.get(name)
        status, detail, text = "recognised", "", None
        try:
            text = thunk()
        except Unrecognised as e:
            status, detail = "unrecognised", str(e)
        except Broken as e:
            status, detail = "broken", str(e)
        except (RecursionError, IndexError, KeyError, TypeError, ValueError, AttributeError) as e:
            # a bug of the front end on unforeseen input is a shape problem, not a licence to guess
            status, detail = "unrecognised", "internal: %s: %s" % (type(e).__name__, e)
        if status == "recognised":
            if self.write_baseline:
                self.base[name] = text
            elif base is None:
                status, detail = "changed", "no baseline recorded for this item"
            elif base != text and not (same is not None and same(base, text)):
                status, detail = "changed", "regenerated definition differs from the recorded baseline"
        elif status == "unrecognised":
            if base is None:
                status, detail = "broken", "unrecognised and no baseline to fall back to: " + detail
                text = None
            else:
                text = base
        if status == "broken":
            text = "example : (0 : Nat) = 1 := rfl  -- TIE BROKEN (%s): %s\n" % (name, detail.replace("\n", " ")[:300])
        self.items.append({"item": name, "props": list(props), "where": where, "status": status, "detail": detail[:400],
                           "flag": flag or name.split(".", 1)[-1].replace(".", "_").replace("-", "_")})
        return text

    def flags_lean(self):
        out = ["/-- extraction outcome per item (`false`: shape not recognised — the definition above is the recorded baseline and the",
               "tie for that item rests on the correspondence check of this run, see DESIGN.md Appendix E) -/"]
        for it in self.items:
            out.append("def recognised_%s : Bool := %s" % (it["flag"], "false" if it["status"] in ("unrecognised", "broken") else "true"))
        return "\n".join(out) + "\n"

    def finish(self, out_path, text):
        if self.write_baseline:
            with open(BASELINE, "w") as f:
                json.dump(self.base, f, indent=1, sort_keys=True, ensure_ascii=False)
                f.write("\n")
        old = open(out_path).read() if os.path.exists(out_path) else None
        if old != text:
            os.makedirs(os.path.dirname(out_path), exist_ok=True)
            with open(out_path, "w") as f:
                f.write(text)
        n = {}
        for it in self.items:
            n[it["status"]] = n.get(it["status"], 0) + 1
        print("%s: %s (%s)" % (self.extractor, ", ".join("%d %s" % (v, k) for k, v in sorted(n.items())) or "no items",
                               "unchanged" if old == text else "rewritten"))
        for it in self.items:
            if it["status"] == "unrecognised":
                print("extract: UNRECOGNISED %s (%s): falling back to the correspondence check -- %s" % (it["item"], it["where"], it["detail"]))
            elif it["status"] == "changed":
                print("extract: CHANGED %s (%s): %s" % (it["item"], it["where"], it["detail"]))
            elif it["status"] == "broken":
                print("%s: tie broken: %s (%s): %s" % (self.extractor, it["item"], it["where"], it["detail"]))
            print("@status " + json.dumps({k: it[k] for k in ("item", "props", "where", "status", "detail")}))
        return 1 if n.get("broken") else 0


def parse_status_lines(text):
    out = []
    for line in text.splitlines():
        if line.startswith("@status "):
            try:
                out.append(json.loads(line[8:]))
            except ValueError:
                pass
    return out
