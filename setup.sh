#!/bin/sh
# MANIFEST.setup_cmd — build the framework from files on disk only (offline).
set -e
cd "$(dirname "$0")"
export CARGO_NET_OFFLINE=true
mkdir -p work evidence replays
[ -f harness/Cargo.lock ] || cp /repo/Cargo.lock harness/Cargo.lock
python3 tools/extract.py
(cd lean && lake build PetgraphModel pgmodel 2>&1 | tail -5)
(cd harness && cargo build --offline --quiet 2>&1 | grep -E '^error' || true)
(cd harness && cargo build --offline --quiet --release 2>&1 | grep -E '^error' || true)
echo setup done
